#!/bin/sh
# usage: check.sh <property id> <quick|thorough>
# Generates the verification conditions of the property from /repo's current working tree and
# discharges them; exit 0 = all discharged, exit 1 = VIOLATION lines printed.
cd /verif || exit 2
if [ ! -x bin/govc ] || [ -n "$(find govc -name '*.go' -newer bin/govc -not -path 'govc/vendor/*' 2>/dev/null | head -1)" ]; then
  ./setup.sh || exit 2
fi
export GOFLAGS=-mod=mod GOPROXY=off GOSUMDB=off GOTOOLCHAIN=local
exec bin/govc -prop "$1" -tier "${2:-quick}"
