package main

import (
	"fmt"
	"go/types"
	"sort"
	"strings"

	"golang.org/x/tools/go/ssa"
)

// verifyFunc generates all obligations of one function under contract.
func (e *Engine) verifyFunc(fn *ssa.Function, ct *Contract, prop string) *Run {
	r := newRun(e, fn, ct)
	r.prop = prop
	st := &State{heap: map[string]string{}, ghost: map[string]string{}, cells: map[int]*Val{}, uses: map[string]bool{}}
	for _, u := range e.C.Always {
		st.uses[u] = true
	}
	for _, u := range ct.Uses {
		st.uses[u] = true
	}
	for _, u := range ct.Needs {
		r.needs[u] = true
	}
	r.vars = map[string]*Val{}
	var args, bind []*Val
	for _, p := range fn.Params {
		v := r.freshVal(st, p.Type(), p.Name())
		if v.K == KPtr && !ct.Nullable[p.Name()] {
			st.assume(app("<", "0", v.P.T))
		}
		if v.K == KIface && v.T != "" && !ct.Nullable[p.Name()] && typeName(p.Type()) != "error" {
			// like pointer parameters: an interface parameter (a writer, a connection, a response writer) is a real object unless the
			// contract says it may be nil
			st.assume(not(app("=", v.T, "0")))
		}
		args = append(args, v)
		r.vars[p.Name()] = v
	}
	for _, fv := range fn.FreeVars {
		// free variables of closures are pointers to the captured variables (naive form) or values
		v := r.freshFree(st, fv)
		bind = append(bind, v)
		r.vars[fv.Name()] = v
	}
	// all initial ghost variables exist from the start so that (old g) is always the entry value
	for _, g := range e.C.Ghosts {
		r.ghostVar(st, g.Name)
	}
	env := &Env{r: r, st: st, vars: r.vars, ctx: r.name + "/requires"}
	for _, cl := range ct.Assumes {
		st.assume(r.evalBool(env, cl.Expr))
		r.note("assumption", "%s assumes %s: %s", r.name, cl.Label, cl.Expr)
	}
	for _, cl := range ct.Requires {
		st.assume(r.evalBool(env, cl.Expr))
	}
	r.entry = st.clone()
	q := &Query{Name: r.name + "/cover:requires", Props: ct.Props, Fn: r.name, Kind: "cover", PC: append([]string(nil), st.pc...), Uses: sortedKeys(st.uses), Goal: "false", Cover: true, Run: r}
	r.queries = append(r.queries, q)

	// an instruction the engine's value model cannot represent (met so far: stores into fields of opaque library structs such as an
	// http.Server literal) must not take the whole run down with exit status 2: it is a tool error of this function, reported as
	// "cannot show the property any more" like every other tool error
	outs := func() (outs []Outcome) {
		defer func() {
			if p := recover(); p != nil {
				r.toolErr("engine cannot model an instruction of %s (internal error: %v)", r.name, p)
				outs = nil
			}
		}()
		return r.execFunc(fn, st, args, bind, 0, true)
	}()
	r.retPaths = len(outs)
	// vacuity guard: some return path must be reachable under the contracts assumed along it (an inconsistent callee contract or
	// invariant makes every postcondition hold vacuously). One query: the disjunction of the path conditions of (up to 64) return paths.
	if len(outs) > 0 {
		var alts []string
		uses := map[string]bool{}
		step := 1
		if len(outs) > 64 {
			step = (len(outs) + 63) / 64
		}
		for i := 0; i < len(outs); i += step {
			o := outs[i]
			alts = append(alts, and(o.st.pc...))
			for u := range o.st.uses {
				uses[u] = true
			}
		}
		pc := alts[0]
		if len(alts) > 1 {
			pc = app("or", alts...)
		}
		r.queries = append(r.queries, &Query{Name: r.name + "/cover:return", Props: ct.Props, Fn: r.name, Kind: "cover", PC: []string{pc},
			Uses: sortedKeys(uses), Goal: "false", Cover: true, Run: r})
	}
	res := fn.Signature.Results()
	for _, o := range outs {
		vars := map[string]*Val{}
		for k, v := range r.vars {
			vars[k] = v
		}
		for i := 0; i < res.Len() && i < len(o.rets); i++ {
			vars[fmt.Sprintf("$r%d", i)] = o.rets[i]
			if n := res.At(i).Name(); n != "" && n != "_" {
				if _, clash := vars[n]; !clash {
					vars[n] = o.rets[i]
				}
			}
		}
		r.curRets = o.rets
		oe := &Env{r: r, st: o.st, old: r.entry, vars: vars, fr: o.fr, ctx: r.name + "/ensures"}
		for _, cl := range ct.Ensures {
			g := r.evalBool(oe, cl.Expr)
			label := cl.Label
			if strings.HasSuffix(label, "@") {
				// one obligation per call site after which the function returned (deferred calls excluded)
				last := "entry"
				for _, t := range o.st.trace {
					if !strings.HasPrefix(t, "defer:") && !strings.HasPrefix(t, "send:") && !strings.HasPrefix(t, "go:") {
						last = t
					}
				}
				label += last
			}
			r.emit(o.st, "ensures:"+label, "ensures", ct.clauseProps(cl), g)
		}
		for _, fname := range ct.Fresh {
			if fv, ok := vars[fname]; ok {
				isFresh := fv.K == KPtr && (fv.P.Kind == PCell || fv.P.T == "0")
				if fv.K == KPtr && fv.P.Kind == PHeap {
					for _, x := range o.st.freshRefs {
						if x == fv.P.T {
							isFresh = true
						}
					}
				}
				if !isFresh {
					r.emit(o.st, "ensures:fresh-"+fname, "ensures", ct.Props, "false")
				}
			}
		}
		if ct.Frame {
			r.heapFrame(o.st, ct)
			mod := map[string]bool{}
			for _, m := range ct.Modifies {
				if m.IsAtom() {
					mod[m.Atom] = true
				}
			}
			for _, g := range e.C.Ghosts {
				if mod[g.Name] {
					continue
				}
				cur := o.st.ghost[g.Name]
				old := r.entry.ghost[g.Name]
				if cur == old {
					continue
				}
				r.emit(o.st, "frame:"+g.Name, "frame", ct.Props, app("=", cur, old))
			}
		}
	}
	r.curRets = nil
	// every callsite/send clause must have been attached to at least one instruction
	for _, ss := range ct.Sites {
		key := r.name + "|" + ss.Callee + "|" + fmt.Sprint(ss.Ordinal) + ss.ValueOf + "|" + fmt.Sprint(ss.IsSend)
		if !r.sitesHit[key] {
			r.toolErr("%s: callsite/send clause for %q #%d%s is attached to no instruction", r.name, ss.Callee, ss.Ordinal, ss.ValueOf)
		}
	}
	return r
}

// freshFree builds the symbolic value of a closure's free variable. In naive form a captured
// variable is a pointer to the enclosing function's local; it becomes a pointer to a fresh cell.
func (r *Run) freshFree(st *State, fv *ssa.FreeVar) *Val {
	if pt, ok := fv.Type().Underlying().(*types.Pointer); ok {
		r.cellN++
		c := &Cell{id: r.cellN, name: fv.Name(), ty: pt.Elem()}
		v := r.freshVal(st, pt.Elem(), fv.Name())
		if v.K == KPtr {
			st.assume(app("<=", "0", v.P.T))
		}
		st.cells[c.id] = v
		return &Val{K: KPtr, Ty: fv.Type(), P: &Ptr{Kind: PCell, Cell: c, Root: pt.Elem()}}
	}
	return r.freshVal(st, fv.Type(), fv.Name())
}

// heapFrame emits, for every symbolic-heap array that changed, the obligation that the change is
// confined to the locations named in the contract's modifies clause. Objects allocated by the
// function itself have negative references and are exempt.
func (r *Run) heapFrame(st *State, ct *Contract) {
	env := &Env{r: r, st: r.entry.clone(), vars: r.vars, ctx: r.name + "/modifies"}
	covered := map[string][]string{} // array name -> refs that may change; "*" = whole array
	add := func(name, ref string) { covered[name] = append(covered[name], ref) }
	for _, m := range ct.Modifies {
		if m.IsAtom() {
			continue
		}
		switch m.Head() {
		case "heap":
			add("H "+m.List[1].Atom, "*")
		case "content":
			v := r.eval(env, m.List[1])
			if v.K == KSlice {
				add("Hb", v.Ref)
			}
		case "elems":
			v := r.eval(env, m.List[1])
			if v.K == KSlice {
				et := v.Ty.Underlying().(*types.Slice).Elem()
				for _, lf := range structLeaves(et) {
					add(sliceArrayName(et, lf.name)+v.Fam, v.Ref)
				}
			}
		case ".":
			base := r.eval(env, m.List[1])
			for _, f := range m.List[2 : len(m.List)-1] {
				base = r.selectField(env, base, f.Atom, m)
			}
			if base.K == KPtr && base.P.Kind == PHeap {
				t := fieldType(base.P.Root, base.P.Path)
				if p, ok := fieldPath(t, m.List[len(m.List)-1].Atom); ok {
					full := append(append([]int{}, base.P.Path...), p...)
					ft := fieldType(base.P.Root, full)
					name := heapArrayName(base.P.Root, fieldNames(base.P.Root, full))
					if _, isSlice := ft.Underlying().(*types.Slice); isSlice {
						for _, sfx := range []string{"#ref", "#off", "#len", "#cap"} {
							add(name+sfx, base.P.T)
						}
					} else if _, isStruct := ft.Underlying().(*types.Struct); isStruct && !isOpaqueNamed(ft) {
						for _, lf := range structLeaves(ft) {
							add(heapArrayName(base.P.Root, fieldNames(base.P.Root, full)+"."+lf.name), base.P.T)
						}
					} else {
						add(name, base.P.T)
					}
				}
			}
		case "mapof":
			v := r.eval(env, m.List[1])
			if mt, ok := v.Ty.Underlying().(*types.Map); ok {
				inN, lenN := mapArrNames(mt)
				add(inN, v.T)
				add(lenN, v.T)
				base := "M " + typeName(mt.Key()) + "->" + typeName(mt.Elem()) + " val"
				add(base+"*", v.T)
			}
		}
	}
	var names []string
	for n := range st.heap {
		names = append(names, n)
	}
	sort.Strings(names)
	for _, name := range names {
		cur := st.heap[name]
		old, had := r.entry.heap[name]
		if !had || old == "" {
			old = sym(name + "@0")
			if !r.declSet[old] {
				if cur == "" {
					continue // never materialised on this path
				}
				// first use happened after entry: the initial symbol is declared with the same sort
				srt := r.sortOf(cur)
				if srt == "" {
					continue
				}
				r.declare(name+"@0", srt)
			}
		}
		if cur == old {
			continue
		}
		if cur == "" {
			// havocked and never read again: still a change unless the whole array is covered
			cur = r.fresh("havocked", r.sortOf(old))
		}
		refs := covered[name]
		if strings.HasPrefix(name, "M ") {
			for k, v := range covered {
				if strings.HasSuffix(k, "*") && strings.HasPrefix(name, strings.TrimSuffix(k, "*")) {
					refs = append(refs, v...)
				}
			}
		}
		whole := false
		var conds []string
		for _, ref := range refs {
			if ref == "*" {
				whole = true
			}
			conds = append(conds, not(app("=", "x!f", ref)))
		}
		if whole {
			continue
		}
		for _, fr := range st.freshRefs {
			conds = append(conds, not(app("=", "x!f", fr)))
		}
		guard := and(append([]string{app(">", "x!f", "0")}, conds...)...)
		goal := fmt.Sprintf("(forall ((x!f Int)) (=> %s (= (select %s x!f) (select %s x!f))))", guard, cur, old)
		r.emit(st, "frame:heap:"+name, "frame", ct.Props, goal)
	}
}

func (r *Run) sortOf(s string) string {
	prefix := "(declare-fun " + s + " () "
	for _, d := range r.decls {
		if strings.HasPrefix(d, prefix) {
			return strings.TrimSuffix(d[len(prefix):], ")")
		}
	}
	return ""
}
