package main

import (
	"fmt"
	"go/types"

	"golang.org/x/tools/go/ssa"
)

// verifyFunc generates all obligations of one function under contract.
func (e *Engine) verifyFunc(fn *ssa.Function, ct *Contract, prop string) *Run {
	r := newRun(e, fn, ct)
	r.prop = prop
	st := &State{heap: map[string]string{}, ghost: map[string]string{}, cells: map[int]*Val{}, uses: map[string]bool{}}
	for _, u := range e.C.Always {
		st.uses[u] = true
	}
	for _, u := range ct.Uses {
		st.uses[u] = true
	}
	for _, u := range ct.Needs {
		r.needs[u] = true
	}
	r.vars = map[string]*Val{}
	var args, bind []*Val
	for _, p := range fn.Params {
		v := r.freshVal(st, p.Type(), p.Name())
		if v.K == KPtr && !ct.Nullable[p.Name()] {
			st.assume(app("<", "0", v.P.T))
		}
		args = append(args, v)
		r.vars[p.Name()] = v
	}
	for _, fv := range fn.FreeVars {
		// free variables of closures are pointers to the captured variables (naive form) or values
		v := r.freshFree(st, fv)
		bind = append(bind, v)
		r.vars[fv.Name()] = v
	}
	// all initial ghost variables exist from the start so that (old g) is always the entry value
	for _, g := range e.C.Ghosts {
		r.ghostVar(st, g.Name)
	}
	env := &Env{r: r, st: st, vars: r.vars, ctx: r.name + "/requires"}
	for _, cl := range ct.Assumes {
		st.assume(r.evalBool(env, cl.Expr))
		r.note("assumption", "%s assumes %s: %s", r.name, cl.Label, cl.Expr)
	}
	for _, cl := range ct.Requires {
		st.assume(r.evalBool(env, cl.Expr))
	}
	r.entry = st.clone()
	q := &Query{Name: r.name + "/cover:requires", Props: ct.Props, Fn: r.name, Kind: "cover", PC: append([]string(nil), st.pc...), Uses: sortedKeys(st.uses), Goal: "false", Cover: true, Run: r}
	r.queries = append(r.queries, q)

	outs := r.execFunc(fn, st, args, bind, 0, true)
	r.retPaths = len(outs)
	res := fn.Signature.Results()
	for _, o := range outs {
		vars := map[string]*Val{}
		for k, v := range r.vars {
			vars[k] = v
		}
		for i := 0; i < res.Len() && i < len(o.rets); i++ {
			vars[fmt.Sprintf("$r%d", i)] = o.rets[i]
			if n := res.At(i).Name(); n != "" && n != "_" {
				if _, clash := vars[n]; !clash {
					vars[n] = o.rets[i]
				}
			}
		}
		oe := &Env{r: r, st: o.st, old: r.entry, vars: vars, ctx: r.name + "/ensures"}
		for _, cl := range ct.Ensures {
			g := r.evalBool(oe, cl.Expr)
			r.emit(o.st, "ensures:"+cl.Label, "ensures", ct.clauseProps(cl), g)
		}
		if ct.Frame {
			mod := map[string]bool{}
			for _, m := range ct.Modifies {
				if m.IsAtom() {
					mod[m.Atom] = true
				}
			}
			for _, g := range e.C.Ghosts {
				if mod[g.Name] {
					continue
				}
				cur := o.st.ghost[g.Name]
				old := r.entry.ghost[g.Name]
				if cur == old {
					continue
				}
				r.emit(o.st, "frame:"+g.Name, "frame", ct.Props, app("=", cur, old))
			}
		}
	}
	// every callsite/send clause must have been attached to at least one instruction
	for _, ss := range ct.Sites {
		key := r.name + "|" + ss.Callee + "|" + fmt.Sprint(ss.Ordinal) + "|" + fmt.Sprint(ss.IsSend)
		if !r.sitesHit[key] {
			r.toolErr("%s: callsite/send clause for %q #%d is attached to no instruction", r.name, ss.Callee, ss.Ordinal)
		}
	}
	return r
}

// freshFree builds the symbolic value of a closure's free variable. In naive form a captured
// variable is a pointer to the enclosing function's local; it becomes a pointer to a fresh cell.
func (r *Run) freshFree(st *State, fv *ssa.FreeVar) *Val {
	if pt, ok := fv.Type().Underlying().(*types.Pointer); ok {
		r.cellN++
		c := &Cell{id: r.cellN, name: fv.Name(), ty: pt.Elem()}
		v := r.freshVal(st, pt.Elem(), fv.Name())
		if v.K == KPtr {
			st.assume(app("<=", "0", v.P.T))
		}
		st.cells[c.id] = v
		return &Val{K: KPtr, Ty: fv.Type(), P: &Ptr{Kind: PCell, Cell: c, Root: pt.Elem()}}
	}
	return r.freshVal(st, fv.Type(), fv.Name())
}
