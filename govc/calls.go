package main

import (
	"fmt"
	"go/constant"
	"go/types"
	"strings"

	"golang.org/x/tools/go/ssa"
)

func (r *Run) handleCall(fr *Frame, st *State, instr ssa.Instruction, cc *ssa.CallCommon) []Outcome {
	var fnv *Val
	if _, isB := cc.Value.(*ssa.Builtin); !isB {
		fnv = r.val(fr, st, cc.Value)
	}
	var args []*Val
	for _, a := range cc.Args {
		args = append(args, r.val(fr, st, a))
	}
	return r.invoke(fr, st, instr, cc, fnv, args)
}

func resultVal(sig *types.Signature, rets []*Val) []*Val {
	n := sig.Results().Len()
	if n == 0 {
		return nil
	}
	if n == 1 {
		if len(rets) >= 1 {
			return rets[:1]
		}
		return nil
	}
	return []*Val{tupleOf(sig.Results(), rets...)}
}

func (r *Run) invoke(fr *Frame, st *State, instr ssa.Instruction, cc *ssa.CallCommon, fnv *Val, args []*Val) []Outcome {
	sig := cc.Signature()
	if b, ok := cc.Value.(*ssa.Builtin); ok {
		v := r.builtin(fr, st, instr, b, cc, args)
		if v == nil {
			return []Outcome{{st: st}}
		}
		return []Outcome{{st: st, rets: []*Val{v}}}
	}
	name := r.eng.calleeName(cc)
	ord := r.eng.callOrdinal(instr, name)
	site := fmt.Sprintf("%s#%d", name, ord)
	if fr.fn != r.fn {
		site = fnName(fr.fn) + ":" + site
	}
	if cc.IsInvoke() {
		// a method call on a nil interface value panics
		if fnv != nil && fnv.K == KIface && fnv.T != "" && !(isLit(fnv.T) && fnv.T != "0") && fnv.Box == nil {
			r.safety(fr, st, "nil", instr, not(app("=", fnv.T, "0")))
		}
		all := append([]*Val{fnv}, args...)
		if ct := r.eng.C.ByName[name]; ct != nil {
			return r.applyContract(fr, st, instr, ct, name, site, all, sig)
		}
		if fnv.Box != nil && fnv.Box.Ty != nil {
			if m := r.eng.prog.LookupMethod(fnv.Box.Ty, cc.Method.Pkg(), cc.Method.Name()); m != nil {
				return r.callStatic(fr, st, instr, m, nil, append([]*Val{fnv.Box}, args...), sig, site)
			}
		}
		return r.unknownCall(fr, st, instr, name, site, all, sig)
	}
	if fnv != nil && fnv.Fn != nil {
		return r.callStatic(fr, st, instr, fnv.Fn, fnv.Bind, args, sig, site)
	}
	// call through a function value
	tn := typeName(cc.Value.Type())
	if ct := r.eng.C.ByName[tn]; ct != nil && ct.Kind == "functype" {
		site = fmt.Sprintf("%s#%d", tn, r.eng.callOrdinal(instr, "dyn:"+tn))
		r.dynFn = fnv
		outs := r.applyContract(fr, st, instr, ct, tn, site, args, sig)
		r.dynFn = nil
		return outs
	}
	return r.unknownCall(fr, st, instr, "dyn:"+tn, site, args, sig)
}

func (r *Run) callStatic(fr *Frame, st *State, instr ssa.Instruction, fn *ssa.Function, bind []*Val, args []*Val, sig *types.Signature, site string) []Outcome {
	name := fnName(fn)
	switch name {
	case "fmt.Sprintf":
		return []Outcome{{st: st, rets: []*Val{strVal(r.sprintf(fr, st, instr, args))}}}
	case "fmt.Errorf":
		msg := r.sprintf(fr, st, instr, args)
		return []Outcome{{st: st, rets: []*Val{r.newError(st, msg)}}}
	case "errors.New":
		return []Outcome{{st: st, rets: []*Val{r.newError(st, args[0].T)}}}
	}
	if ct := r.eng.C.ByName[name]; ct != nil && !ct.Inline && (ct.Kind == "func" || ct.Kind == "extern") {
		return r.applyContract(fr, st, instr, ct, name, site, args, fn.Signature)
	}
	if r.eng.inRepo(fn) && fn.Blocks != nil {
		if fr.depth >= 5 {
			r.toolErr("inline depth exceeded at %s", name)
			return nil
		}
		r.note("inlined", "%s", name)
		r.siteChecks(fr, st, instr, r.contractFor(fr.fn), name, site, argVars(args), false)
		outs := r.execFunc(fn, st, args, bind, fr.depth+1, false, fr)
		var res []Outcome
		for _, o := range outs {
			res = append(res, Outcome{st: o.st, rets: resultVal(fn.Signature, o.rets)})
		}
		return res
	}
	return r.unknownCall(fr, st, instr, name, site, args, fn.Signature)
}

func (r *Run) newError(st *State, msg string) *Val {
	e := r.fresh("err", "Int")
	st.assume(app("<", "100000", e))
	st.assume(app("=", app("errmsg", e), msg))
	st.uses["errmsg"] = true
	return &Val{K: KIface, Ty: types.Universe.Lookup("error").Type(), T: e}
}

// unknownCall over-approximates a call with no contract and no body.
func (r *Run) unknownCall(fr *Frame, st *State, instr ssa.Instruction, name, site string, args []*Val, sig *types.Signature) []Outcome {
	r.siteChecks(fr, st, instr, r.contractFor(fr.fn), strings.TrimPrefix(name, "dyn:"), site, argVars(args), false)
	if effectFree(name) {
		r.note("havoc-result", "%s (effect-free list: result unconstrained, no state change)", name)
	} else {
		r.note("unmodelled-effect", "%s called in %s: all mutable ghost state and heap havocked", name, fnName(fr.fn))
		for _, g := range r.eng.C.Ghosts {
			if !r.eng.C.ReadOnly[g.Name] {
				r.havocGhost(st, g.Name)
			}
		}
		for n := range st.heap {
			st.heap[n] = ""
		}
		st.heapGen++
		st.hbVer = r.nextVer()
		// objects reachable through pointer arguments to locals
		for _, a := range args {
			r.havocReachable(st, a)
		}
	}
	var rets []*Val
	for i := 0; i < sig.Results().Len(); i++ {
		rets = append(rets, r.freshVal(st, sig.Results().At(i).Type(), "r."+shortName(name)))
	}
	return []Outcome{{st: st, rets: resultVal(sig, rets)}}
}

func shortName(n string) string {
	if i := strings.LastIndex(n, "."); i >= 0 {
		return n[i+1:]
	}
	return n
}

func (r *Run) havocReachable(st *State, a *Val) {
	if a == nil {
		return
	}
	switch a.K {
	case KPtr:
		if a.P.Kind == PCell && a.P.Cell.id > 0 {
			t := fieldType(a.P.Root, a.P.Path)
			r.store(st, a.P, r.freshVal(st, t, "havoc."+a.P.Cell.name))
		}
	case KIface:
		if a.Box != nil {
			r.havocReachable(st, a.Box)
		}
	case KFunc:
		for _, b := range a.Bind {
			r.havocReachable(st, b)
		}
	}
}

// ---- contracts at call sites ----

func (r *Run) applyContract(fr *Frame, st *State, instr ssa.Instruction, ct *Contract, name, site string, args []*Val, sig *types.Signature) []Outcome {
	vars := map[string]*Val{}
	formals := ct.Params
	if ct.Kind == "func" {
		fn := r.eng.fns[name]
		if fn == nil {
			r.toolErr("contract for unknown function %s", name)
			return nil
		}
		formals = nil
		for _, p := range fn.Params {
			formals = append(formals, p.Name())
		}
	}
	if len(formals) != len(args) {
		r.toolErr("contract %s has %d formals but the call at %s passes %d arguments", name, len(formals), site, len(args))
		return nil
	}
	for i, f := range formals {
		vars[f] = args[i]
		vars[fmt.Sprintf("$%d", i)] = args[i]
	}
	if r.dynFn != nil {
		vars["$fn"] = r.dynFn
	}
	callerCt := r.contractFor(fr.fn)
	defProps := ctProps(r.ct)
	env := &Env{r: r, st: st, fr: nil, vars: vars, ctx: site}
	for _, u := range ct.Uses {
		st.uses[u] = true
	}
	for _, u := range ct.Needs {
		r.needs[u] = true
	}
	// callee preconditions
	for _, cl := range ct.Requires {
		g := r.evalBool(env, cl.Expr)
		r.emit(st, "call:"+site+"/requires:"+cl.Label, "callreq", propsOr(cl.Props, defProps), g)
		st.assume(g)
	}
	// caller-specified obligations at this site
	r.siteChecks(fr, st, instr, callerCt, name, site, vars, false)
	// file-system path frame of the function under verification
	if ct.FsPath != nil && r.ct != nil {
		p := r.evalTerm(env, ct.FsPath)
		for _, cl := range r.ct.FsFrame {
			fe := &Env{r: r, st: st, old: r.entry, fr: nil, vars: map[string]*Val{}, ctx: site}
			for k, v := range r.vars {
				fe.vars[k] = v
			}
			fe.vars["$p"] = strVal(p)
			fe.vars["$op"] = strVal(smtStr(ct.FsOp))
			g := r.evalBool(fe, cl.Expr)
			r.emit(st, "fsframe:"+cl.Label+"@"+site, "fsframe", propsOr(cl.Props, defProps), g)
		}
	}
	pre := st.clone()
	modifiesFS := false
	for _, m := range ct.Modifies {
		if m.IsAtom() && strings.HasPrefix(m.Atom, "fs") {
			modifiesFS = true
		}
		r.applyModifies(env, st, m)
	}
	var rets []*Val
	for i := 0; i < sig.Results().Len(); i++ {
		rv := r.freshVal(st, sig.Results().At(i).Type(), "r."+shortName(name))
		rets = append(rets, rv)
		vars[fmt.Sprintf("$r%d", i)] = rv
		if i < len(ct.Results) {
			vars[ct.Results[i]] = rv
		} else if n := sig.Results().At(i).Name(); n != "" && n != "_" {
			if _, clash := vars[n]; !clash {
				vars[n] = rv
			}
		}
	}
	for _, fname := range ct.Fresh {
		if fv, ok := vars[fname]; ok && fv.K == KPtr && fv.P.Kind == PHeap {
			st.freshRefs = append(st.freshRefs, fv.P.T)
			// a new object is none of the objects the caller already holds
			for _, a := range args {
				if a.K == KPtr && a.P.Kind == PHeap && len(a.P.Path) == 0 {
					st.assume(not(app("=", fv.P.T, a.P.T)))
				}
			}
			for _, pv := range r.vars {
				if pv.K == KPtr && pv.P.Kind == PHeap && len(pv.P.Path) == 0 {
					st.assume(not(app("=", fv.P.T, pv.P.T)))
				}
			}
		}
	}
	post := &Env{r: r, st: st, old: pre, fr: nil, vars: vars, ctx: site}
	used := false
	for _, cl := range ct.Ensures {
		if r.prop != "" && ct.Kind == "func" && !hasProp(ct.clauseProps(cl), r.prop) {
			// relied upon here, discharged by the checks of the properties it is tagged with
			r.foreign[name+"/ensures:"+cl.Label] = strings.Join(ct.clauseProps(cl), ",")
		}
		if mentionsLocal(cl.Expr) {
			continue // a statement about the callee's locals says nothing to the caller
		}
		used = true
		st.assume(r.evalBool(post, cl.Expr))
	}
	for _, cl := range ct.TrustedEnsures {
		st.assume(r.evalBool(post, cl.Expr))
		r.note("assumption", "%s: trusted postcondition %s (not checked against the body): %s", name, cl.Label, cl.Expr)
	}
	_ = used
	if ct.Kind == "func" {
		r.assumed[name] = true
	} else {
		r.note("extern", "%s", name)
	}
	if r.inDefer > 0 {
		st.trace = append(st.trace, "defer:"+site)
	} else {
		st.trace = append(st.trace, site)
	}
	if modifiesFS && r.ct != nil && fr.depth >= 0 {
		for _, cl := range r.ct.CrashInv {
			ce := &Env{r: r, st: st, old: r.entry, fr: nil, vars: r.vars, ctx: site}
			g := r.evalBool(ce, cl.Expr)
			r.emit(st, "crashinv:"+cl.Label+"@"+site, "crashinv", propsOr(cl.Props, defProps), g)
		}
	}
	return []Outcome{{st: st, rets: resultVal(sig, rets)}}
}

func (r *Run) siteChecks(fr *Frame, st *State, instr ssa.Instruction, callerCt *Contract, name, site string, vars map[string]*Val, isSend bool) {
	if !isSend {
		for _, ss := range r.eng.C.Everywhere {
			if ss.Callee != name {
				continue
			}
			if ss.InPkg != "" && (fr.fn.Pkg == nil || fr.fn.Pkg.Pkg.Name() != ss.InPkg) {
				if fr.fn.Parent() == nil || fr.fn.Parent().Pkg == nil || fr.fn.Parent().Pkg.Pkg.Name() != ss.InPkg {
					continue
				}
			}
			se := &Env{r: r, st: st, old: r.entry, fr: fr, vars: map[string]*Val{}, ctx: site}
			for k, v := range r.varsFor(fr) {
				se.vars[k] = v
			}
			for k, v := range vars {
				if strings.HasPrefix(k, "$") {
					se.vars[k] = v
				}
			}
			for _, cl := range ss.Requires {
				g := r.evalBool(se, cl.Expr)
				r.emit(st, "site:"+site+"/everywhere:"+cl.Label, "callsite", propsOr(cl.Props, ctProps(r.ct)), g)
			}
		}
	}
	// A call inside a helper that has no contract of its own (verified inlined) answers to the clauses of the function under
	// verification: moving a call into a helper must neither lose the clause nor raise an alarm.
	inHelper := false
	owner := fnName(fr.fn)
	if callerCt == nil {
		if fr.fn == r.fn || r.ct == nil {
			return
		}
		callerCt, inHelper, owner = r.ct, true, r.name
	}
	nSpecs := 0
	for _, ss := range callerCt.Sites {
		if ss.IsSend == isSend && ss.Callee == name {
			nSpecs++
		}
	}
	for _, ss := range callerCt.Sites {
		if ss.IsSend != isSend || ss.Callee != name {
			continue
		}
		ord := -1
		if i := strings.LastIndex(site, "#"); i >= 0 {
			fmt.Sscanf(site[i+1:], "%d", &ord)
		}
		if inHelper {
			// positions inside a helper do not count: the clause applies if it is the only one for this callee (or says "every site")
			if ss.Ordinal >= 0 && nSpecs != 1 {
				continue
			}
		} else if ss.Ordinal >= 0 && ss.Ordinal != ord {
			continue
		}
		if ss.ValueOf != "" && !strings.HasSuffix(site, "@"+ss.ValueOf) {
			continue
		}
		if ss.ValueOf == "" && isSend && strings.Contains(site, "@") {
			continue
		}
		se := &Env{r: r, st: st, old: r.entry, fr: fr, vars: map[string]*Val{}, ctx: site}
		for k, v := range r.varsFor(fr) {
			se.vars[k] = v
		}
		for k, v := range vars {
			if strings.HasPrefix(k, "$") {
				se.vars[k] = v
			}
		}
		// the obligation is named by the callee; the position is part of the name only where the contract distinguishes positions
		oname := site
		if !isSend {
			oname = name
			if nSpecs > 1 && ss.Ordinal >= 0 {
				oname = fmt.Sprintf("%s#%d", name, ss.Ordinal)
			}
			if fr.fn != r.fn && !inHelper {
				oname = fnName(fr.fn) + ":" + oname
			}
		}
		for _, cl := range ss.Requires {
			g := r.evalBool(se, cl.Expr)
			kind := "site:"
			if isSend {
				kind = "send:"
			}
			r.emit(st, kind+oname+"/"+cl.Label, "callsite", propsOr(cl.Props, ctProps(callerCt)), g)
			st.assume(g)
		}
		r.sitesHit[owner+"|"+ss.Callee+"|"+fmt.Sprint(ss.Ordinal)+ss.ValueOf+"|"+fmt.Sprint(isSend)] = true
	}
}

func (r *Run) applyModifies(env *Env, st *State, m *SX) {
	if m.IsAtom() {
		if _, ok := r.eng.C.DeclBy["ghost:"+m.Atom]; ok {
			r.havocGhost(st, m.Atom)
			return
		}
		// a formal: havoc what it points to / its elements
		v, ok := env.vars[m.Atom]
		if !ok {
			r.toolErr("%s: modifies names unknown %q", env.ctx, m.Atom)
			return
		}
		r.havocTarget(st, v)
		return
	}
	switch m.Head() {
	case ".":
		base := r.eval(env, m.List[1])
		for _, f := range m.List[2 : len(m.List)-1] {
			base = r.selectField(env, base, f.Atom, m)
		}
		last := m.List[len(m.List)-1].Atom
		if base.K != KPtr {
			if base.K == KIface && base.Box != nil && base.Box.K == KPtr {
				base = base.Box
			} else {
				r.toolErr("%s: modifies %s: base is not a pointer", env.ctx, m)
				return
			}
		}
		t := fieldType(base.P.Root, base.P.Path)
		p, ok := fieldPath(t, last)
		if !ok {
			r.toolErr("%s: modifies %s: no such field", env.ctx, m)
			return
		}
		np := &Ptr{Kind: base.P.Kind, T: base.P.T, Idx: base.P.Idx, Cell: base.P.Cell, Root: base.P.Root, Path: append(append([]int{}, base.P.Path...), p...)}
		r.store(st, np, r.freshVal(st, fieldType(np.Root, np.Path), "mod."+last))
	case "heap":
		name := "H " + m.List[1].Atom
		st.heap[name] = ""
	case "content":
		v := r.eval(env, m.List[1])
		if v.K == KSlice {
			hb := r.heapArr(st, "Hb", "String")
			nc := r.fresh("content", "String")
			r.setHeapArr(st, "Hb", "String", app("store", hb, v.Ref, nc))
			st.hbVer = r.nextVer()
		}
	case "elems":
		v := r.eval(env, m.List[1])
		if v.K != KSlice {
			r.toolErr("%s: modifies (elems x): not a slice", env.ctx)
			return
		}
		if v.FromCell != nil {
			r.store(st, &Ptr{Kind: PCell, Cell: v.FromCell, Root: v.FromCell.ty}, r.freshVal(st, v.FromCell.ty, "mod.elems"))
			return
		}
		et := v.Ty.Underlying().(*types.Slice).Elem()
		for _, lf := range structLeaves(et) {
			srt := scalarSort(lf.ty)
			if srt == "" {
				continue
			}
			n := sliceArrayName(et, lf.name) + v.Fam
			arr := r.heapArr(st, n, "(Array Int "+srt+")")
			r.setHeapArr(st, n, "(Array Int "+srt+")", app("store", arr, v.Ref, r.fresh("elems", "(Array Int "+srt+")")))
		}
	case "mapof":
		v := r.eval(env, m.List[1])
		mt, ok := v.Ty.Underlying().(*types.Map)
		if !ok {
			r.toolErr("%s: modifies (mapof x): not a map", env.ctx)
			return
		}
		ks := scalarSort(mt.Key())
		inN, lenN := mapArrNames(mt)
		in := r.heapArr(st, inN, "(Array "+ks+" Bool)")
		r.setHeapArr(st, inN, "(Array "+ks+" Bool)", app("store", in, v.T, r.fresh("mapin", "(Array "+ks+" Bool)")))
		ln := r.heapArr(st, lenN, "Int")
		nl := r.fresh("maplen", "Int")
		st.assume(app("<=", "0", nl))
		r.setHeapArr(st, lenN, "Int", app("store", ln, v.T, nl))
		et := mt.Elem()
		leaves := []leaf{{ty: et}}
		if _, isStruct := et.Underlying().(*types.Struct); isStruct && !isOpaqueNamed(et) {
			leaves = structLeaves(et)
		}
		for _, lf := range leaves {
			srt := scalarSort(lf.ty)
			if srt == "" {
				continue
			}
			n := mapValArr(mt, lf.name)
			arr := r.heapArr(st, n, "(Array "+ks+" "+srt+")")
			r.setHeapArr(st, n, "(Array "+ks+" "+srt+")", app("store", arr, v.T, r.fresh("mapval", "(Array "+ks+" "+srt+")")))
		}
	case "deref":
		v := r.eval(env, m.List[1])
		r.havocTarget(st, v)
	case "boxed":
		v := r.eval(env, m.List[1])
		if v.K == KIface && v.Box != nil {
			r.havocTarget(st, v.Box)
		}
	default:
		r.toolErr("%s: unsupported modifies target %s", env.ctx, m)
	}
}

func (r *Run) havocTarget(st *State, v *Val) {
	switch v.K {
	case KPtr:
		t := fieldType(v.P.Root, v.P.Path)
		if v.P.Kind == PCell && v.P.Cell.id < 0 {
			return
		}
		r.store(st, v.P, r.freshVal(st, t, "mod"))
	case KIface:
		if v.Box != nil {
			r.havocTarget(st, v.Box)
		}
	case KSlice:
		if isByteSlice(v.Ty) {
			hb := r.heapArr(st, "Hb", "String")
			r.setHeapArr(st, "Hb", "String", app("store", hb, v.Ref, r.fresh("content", "String")))
			st.hbVer = r.nextVer()
		}
	}
}

// ---- channel events ----

func chanFieldName(v ssa.Value) string {
	switch x := v.(type) {
	case *ssa.UnOp:
		return chanFieldName(x.X)
	case *ssa.FieldAddr:
		st := x.X.Type().Underlying().(*types.Pointer).Elem().Underlying().(*types.Struct)
		return st.Field(x.Field).Name()
	case *ssa.Field:
		st := x.X.Type().Underlying().(*types.Struct)
		return st.Field(x.Field).Name()
	case *ssa.Alloc:
		return x.Comment
	case *ssa.Parameter:
		return x.Name()
	case *ssa.FreeVar:
		return x.Name()
	case *ssa.ChangeType:
		return chanFieldName(x.X)
	}
	return "?"
}

func (r *Run) sendOrdinal(instr ssa.Instruction, field string, selIdx int) int {
	fn := instr.Parent()
	n := 0
	for _, b := range fn.Blocks {
		for _, in := range b.Instrs {
			switch x := in.(type) {
			case *ssa.Send:
				if chanFieldName(x.Chan) == field {
					if in == instr {
						return n
					}
					n++
				}
			case *ssa.Select:
				for k, s := range x.States {
					if s.Dir == types.SendOnly && chanFieldName(s.Chan) == field {
						if in == instr && k == selIdx {
							return n
						}
						n++
					}
				}
			}
		}
	}
	return -1
}

func (r *Run) sendCheck(fr *Frame, st *State, instr ssa.Instruction, ch, x ssa.Value, guard string) {
	field := chanFieldName(ch)
	v := r.val(fr, st, x)
	cv := r.val(fr, st, ch)
	site := fmt.Sprintf("%s#%d", field, r.sendOrdinal(instr, field, -1))
	// a send whose value is the result of a static call can be named by that callee instead of by its position
	if c, ok := x.(*ssa.Call); ok {
		if callee := r.eng.calleeName(&c.Call); callee != "" {
			if ct := r.contractFor(fr.fn); ct != nil {
				for _, ss := range ct.Sites {
					if ss.IsSend && ss.Callee == field && ss.ValueOf == callee {
						site = field + "@" + callee
					}
				}
			}
		}
	}
	if fr.fn != r.fn {
		site = fnName(fr.fn) + ":" + site
	}
	vars := map[string]*Val{"$v": v, "$ch": cv}
	r.siteChecks(fr, st, instr, r.contractFor(fr.fn), field, site, vars, true)
	if _, ok := r.eng.C.DeclBy["ghost:sent."+field]; ok {
		cur, _ := r.ghostVar(st, "sent."+field)
		r.havocGhost(st, "sent."+field)
		nw, _ := r.ghostVar(st, "sent."+field)
		st.assume(app("=", nw, app("+", cur, "1")))
	}
	if _, ok := r.eng.C.DeclBy["ghost:lastsent."+field]; ok && v.T != "" {
		r.havocGhost(st, "lastsent."+field)
		nw, _ := r.ghostVar(st, "lastsent."+field)
		st.assume(app("=", nw, r.termOf(v)))
	}
	st.trace = append(st.trace, "send:"+site)
}

func (r *Run) recvEvent(fr *Frame, st *State, x *ssa.UnOp, ch, rv *Val) {
	r.ghostEvent(fr, st, "recv", chanFieldName(x.X), "")
}

func (r *Run) goEvent(fr *Frame, st *State, x *ssa.Go) {
	name := r.eng.calleeName(&x.Call)
	ord := r.eng.callOrdinal(x, name)
	site := fmt.Sprintf("%s#%d", name, ord)
	vars := map[string]*Val{}
	for i, a := range x.Call.Args {
		vars[fmt.Sprintf("$%d", i)] = r.val(fr, st, a)
	}
	r.siteChecks(fr, st, x, r.contractFor(fr.fn), name, site, vars, false)
	// a goroutine is started on a function under contract: its preconditions are obligations of the spawner
	if ct := r.eng.C.ByName[name]; ct != nil && ct.Kind == "func" && len(ct.Requires) > 0 {
		if fn := r.eng.fns[name]; fn != nil && len(fn.Params) == len(x.Call.Args) {
			cv := map[string]*Val{}
			for i, p := range fn.Params {
				cv[p.Name()] = r.val(fr, st, x.Call.Args[i])
				cv[fmt.Sprintf("$%d", i)] = cv[p.Name()]
			}
			env := &Env{r: r, st: st, fr: nil, vars: cv, ctx: site}
			for _, u := range ct.Uses {
				st.uses[u] = true
			}
			for _, cl := range ct.Requires {
				g := r.evalBool(env, cl.Expr)
				r.emit(st, "go:"+site+"/requires:"+cl.Label, "callreq", propsOr(cl.Props, ctProps(r.ct)), g)
			}
		}
	}
	if _, ok := r.eng.C.DeclBy["ghost:spawned"]; ok {
		cur, _ := r.ghostVar(st, "spawned")
		r.havocGhost(st, "spawned")
		nw, _ := r.ghostVar(st, "spawned")
		st.assume(app("=", nw, app("+", cur, "1")))
	}
	st.trace = append(st.trace, "go:"+site)
}

func (r *Run) selectInstr(fr *Frame, st *State, x *ssa.Select) *Val {
	idx := r.fresh("select.idx", "Int")
	lo := "0"
	if !x.Blocking {
		lo = "(- 1)"
	}
	st.assume(app("and", app("<=", lo, idx), app("<", idx, fmt.Sprint(len(x.States)))))
	elems := []*Val{intVal(idx), boolVal(r.fresh("select.ok", "Bool"))}
	for k, s := range x.States {
		if s.Dir == types.RecvOnly {
			et := s.Chan.Type().Underlying().(*types.Chan).Elem()
			elems = append(elems, r.freshVal(st, et, "select.recv"))
			r.ghostEvent(fr, st, "recv", chanFieldName(s.Chan), app("=", idx, fmt.Sprint(k)))
		} else {
			// a send that may be chosen: its obligation holds under idx = k
			sst := st.clone()
			sst.assume(app("=", idx, fmt.Sprint(k)))
			field := chanFieldName(s.Chan)
			v := r.val(fr, st, s.Send)
			site := fmt.Sprintf("%s#%d", field, r.sendOrdinal(x, field, k))
			r.siteChecks(fr, sst, x, r.contractFor(fr.fn), field, site, map[string]*Val{"$v": v, "$ch": r.val(fr, st, s.Chan)}, true)
			// the send happens exactly when this case is chosen: the ghost counters follow it
			chosen := app("=", idx, fmt.Sprint(k))
			if _, ok := r.eng.C.DeclBy["ghost:sent."+field]; ok {
				cur, _ := r.ghostVar(st, "sent."+field)
				r.havocGhost(st, "sent."+field)
				nw, _ := r.ghostVar(st, "sent."+field)
				st.assume(app("=", nw, app("ite", chosen, app("+", cur, "1"), cur)))
			}
			if _, ok := r.eng.C.DeclBy["ghost:lastsent."+field]; ok && v.T != "" {
				cur, _ := r.ghostVar(st, "lastsent."+field)
				r.havocGhost(st, "lastsent."+field)
				nw, _ := r.ghostVar(st, "lastsent."+field)
				st.assume(app("=", nw, app("ite", chosen, r.termOf(v), cur)))
			}
		}
	}
	return tupleOf(x.Type(), elems...)
}

// ---- builtins ----

func (r *Run) builtin(fr *Frame, st *State, instr ssa.Instruction, b *ssa.Builtin, cc *ssa.CallCommon, args []*Val) *Val {
	switch b.Name() {
	case "len", "cap":
		a := args[0]
		switch a.K {
		case KStr:
			return intVal(app("str.len", a.T))
		case KSlice:
			if b.Name() == "cap" {
				return intVal(a.Cap)
			}
			return intVal(a.Len)
		case KMap:
			mt := a.Ty.Underlying().(*types.Map)
			_, lenN := mapArrNames(mt)
			l := app("select", r.heapArr(st, lenN, "Int"), a.T)
			st.assume(app("<=", "0", l))
			return intVal(l)
		case KChan:
			l := r.fresh("chanlen", "Int")
			st.assume(app("<=", "0", l))
			return intVal(l)
		case KArray:
			return intVal(fmt.Sprint(len(a.Elems)))
		}
	case "copy":
		dst, src := args[0], args[1]
		var srcLen, srcContent string
		if src.K == KStr {
			srcLen, srcContent = app("str.len", src.T), src.T
		} else {
			srcLen = src.Len
			if isByteSlice(src.Ty) {
				srcContent = r.content(st, src)
			}
		}
		n := r.fresh("copy.n", "Int")
		st.assume(app("=", n, app("ite", app("<=", srcLen, dst.Len), srcLen, dst.Len)))
		if isByteSlice(dst.Ty) && srcContent != "" {
			r.writeBytes(st, dst, "0", app("str.substr", srcContent, "0", n))
		} else {
			r.note("unmodelled", "copy of non-byte slices in %s", fnName(fr.fn))
			r.havocTarget(st, dst)
		}
		return intVal(n)
	case "append":
		return r.appendBuiltin(fr, st, args)
	case "ssa:wrapnilchk":
		return args[0]
	case "ssa:deferstack":
		return &Val{K: KOpaque, Ty: cc.Signature().Results().At(0).Type(), T: "0"}
	case "delete", "print", "println", "close", "recover", "clear":
		if b.Name() == "delete" {
			r.note("unmodelled", "delete from map")
		}
		if b.Name() == "recover" {
			return &Val{K: KIface, T: "0"}
		}
		return nil
	case "min", "max":
		op := "<="
		if b.Name() == "max" {
			op = ">="
		}
		cur := args[0].T
		for _, a := range args[1:] {
			cur = app("ite", app(op, cur, a.T), cur, a.T)
		}
		return mkScalar(args[0].Ty, cur)
	}
	if strings.HasPrefix(b.Name(), "ssa:") {
		return &Val{K: KOpaque, T: "0"}
	}
	r.note("unmodelled", "builtin %s", b.Name())
	if cc.Signature().Results().Len() > 0 {
		return r.freshVal(st, cc.Signature().Results().At(0).Type(), b.Name())
	}
	return nil
}

func (r *Run) appendBuiltin(fr *Frame, st *State, args []*Val) *Val {
	s, t := args[0], args[1]
	res := &Val{K: KSlice, Ty: s.Ty}
	res.Ref = r.fresh("append.ref", "Int")
	st.assume(app("<", "0", res.Ref))
	res.Off = "0"
	var tLen string
	if t.K == KStr {
		tLen = app("str.len", t.T)
	} else {
		tLen = t.Len
	}
	res.Len = app("+", s.Len, tLen)
	res.Cap = r.fresh("append.cap", "Int")
	st.assume(app("<=", res.Len, res.Cap))
	if isByteSlice(s.Ty) {
		var tc string
		if t.K == KStr {
			tc = t.T
		} else {
			tc = r.content(st, t)
		}
		c := app("str.++", r.content(st, s), tc)
		hb := r.heapArr(st, "Hb", "String")
		r.setHeapArr(st, "Hb", "String", app("store", hb, res.Ref, c))
		st.hbVer = r.nextVer()
		res.Content = c
		res.ContentVer = st.hbVer
		return res
	}
	et := s.Ty.Underlying().(*types.Slice).Elem()
	for _, lf := range structLeaves(et) {
		srt := scalarSort(lf.ty)
		if srt == "" {
			continue
		}
		n := sliceArrayName(et, lf.name)
		arr := r.heapArr(st, n, "(Array Int "+srt+")")
		sarr := r.heapArr(st, n+s.Fam, "(Array Int "+srt+")")
		tarr := r.heapArr(st, n+t.Fam, "(Array Int "+srt+")")
		na := r.fresh("append.arr", "(Array Int "+srt+")")
		st.assume(fmt.Sprintf("(forall ((i Int)) (=> (and (<= 0 i) (< i %s)) (= (select %s i) (select (select %s %s) (+ %s i)))))", s.Len, na, sarr, s.Ref, s.Off))
		if t.FromCell != nil {
			tv := st.cells[t.FromCell.id]
			for i, ev := range tv.Elems {
				lv := ev
				if len(lf.path) > 0 {
					lv = leafVal(ev, lf.path)
				}
				st.assume(app("=", app("select", na, app("+", s.Len, fmt.Sprint(i))), r.termOf(lv)))
			}
		} else if t.K == KSlice {
			st.assume(fmt.Sprintf("(forall ((i Int)) (=> (and (<= 0 i) (< i %s)) (= (select %s (+ %s i)) (select (select %s %s) (+ %s i)))))", t.Len, na, s.Len, tarr, t.Ref, t.Off))
		}
		r.setHeapArr(st, n, "(Array Int "+srt+")", app("store", arr, res.Ref, na))
	}
	return res
}

// ---- fmt.Sprintf / fmt.Errorf with a constant format ----

func (r *Run) sprintf(fr *Frame, st *State, instr ssa.Instruction, args []*Val) string {
	var cc *ssa.CallCommon
	switch x := instr.(type) {
	case *ssa.Call:
		cc = &x.Call
	case *ssa.Defer:
		cc = &x.Call
	}
	var format string
	known := false
	if cc != nil && len(cc.Args) > 0 {
		if c, ok := cc.Args[0].(*ssa.Const); ok && c.Value != nil && c.Value.Kind() == constant.String {
			format = constant.StringVal(c.Value)
			known = true
		}
	}
	if !known {
		r.note("unmodelled", "Sprintf with non-constant format in %s", fnName(fr.fn))
		return r.fresh("sprintf", "String")
	}
	var elems []*Val
	if len(args) > 1 && args[1].K == KSlice && args[1].FromCell != nil {
		elems = st.cells[args[1].FromCell.id].Elems
	} else if len(args) > 1 && args[1].K == KSlice && args[1].Ref != "0" {
		r.note("unmodelled", "Sprintf with non-literal argument list")
		return r.fresh("sprintf", "String")
	}
	var pieces []string
	lit := ""
	flush := func() {
		if lit != "" {
			pieces = append(pieces, smtStr(lit))
			lit = ""
		}
	}
	ai := 0
	for i := 0; i < len(format); i++ {
		c := format[i]
		if c != '%' {
			lit += string(c)
			continue
		}
		i++
		if i >= len(format) {
			lit += "%"
			break
		}
		if format[i] == '%' {
			lit += "%"
			continue
		}
		// flags/width: anything other than a bare verb is over-approximated
		j := i
		for j < len(format) && strings.ContainsRune("+-# 0123456789.", rune(format[j])) {
			j++
		}
		plain := j == i
		i = j
		if i >= len(format) {
			break
		}
		verb := format[i]
		flush()
		if ai >= len(elems) {
			pieces = append(pieces, r.fresh("fmt.missing", "String"))
			continue
		}
		a := elems[ai]
		ai++
		if a.K == KIface && a.Box != nil {
			a = a.Box
		}
		pieces = append(pieces, r.fmtVerb(st, verb, plain, a))
	}
	flush()
	if len(pieces) == 0 {
		return `""`
	}
	if len(pieces) == 1 {
		return pieces[0]
	}
	return app("str.++", pieces...)
}

func isErrorType(t types.Type) bool {
	return t != nil && types.Identical(t, types.Universe.Lookup("error").Type())
}

func (r *Run) fmtVerb(st *State, verb byte, plain bool, a *Val) string {
	if plain {
		switch {
		case (verb == 's' || verb == 'v') && a.K == KStr:
			return a.T
		case (verb == 'd' || verb == 'v') && a.K == KInt && !isOpaqueNamed(a.Ty):
			st.uses["itoa"] = true
			return app("itoa", a.T)
		case (verb == 't' || verb == 'v') && a.K == KBool:
			return app("ite", a.T, `"true"`, `"false"`)
		case (verb == 's' || verb == 'v') && a.K == KIface && a.T != "":
			st.uses["errmsg"] = true
			return app("errmsg", a.T)
		}
	}
	return r.fresh("fmt."+string(verb), "String")
}

func mentionsLocal(x *SX) bool {
	if x.IsAtom() {
		return false
	}
	if x.Head() == "local" || x.Head() == "callresult" || x.Head() == "called" {
		return true
	}
	for _, e := range x.List {
		if mentionsLocal(e) {
			return true
		}
	}
	return false
}

func argVars(args []*Val) map[string]*Val {
	m := map[string]*Val{}
	for i, a := range args {
		m[fmt.Sprintf("$%d", i)] = a
	}
	return m
}

// ghostEvent runs the ghost code the enclosing function's contract attaches to an event. cond, if not
// empty, makes the update conditional (select: the case was chosen).
func (r *Run) ghostEvent(fr *Frame, st *State, on, target, cond string) {
	ct := r.contractFor(fr.fn)
	if ct == nil {
		return
	}
	for _, g := range ct.Ghosts {
		if g.On != on || g.Target != target {
			continue
		}
		env := &Env{r: r, st: st, old: r.entry, fr: fr, vars: r.varsFor(fr), ctx: "ghost update"}
		val := r.evalTerm(env, g.Expr)
		cur, ok := r.ghostVar(st, g.Ghost)
		if !ok {
			r.toolErr("ghost update of undeclared ghost %q", g.Ghost)
			continue
		}
		r.havocGhost(st, g.Ghost)
		nw, _ := r.ghostVar(st, g.Ghost)
		if cond != "" {
			st.assume(app("=", nw, app("ite", cond, val, cur)))
		} else {
			st.assume(app("=", nw, val))
		}
	}
}
