package main

import (
	"encoding/json"
	"fmt"
	"os"
	"path/filepath"
	"sort"
	"strings"
	"time"
)

type replayFile struct {
	Property   string            `json:"property"`
	Obligation string            `json:"obligation"`
	Status     string            `json:"status"`
	Reason     string            `json:"reason"`
	Goal       string            `json:"goal,omitempty"`
	Trace      []string          `json:"path,omitempty"`
	Script     string            `json:"smt_script,omitempty"`
	Solver     map[string]string `json:"solver"`
	Model      map[string]string `json:"model,omitempty"`
	Replay     *replayOutcome    `json:"replay,omitempty"`
}

type replayOutcome struct {
	Cmd       string                 `json:"cmd,omitempty"`
	Driver    string                 `json:"driver,omitempty"`
	Output    string                 `json:"output,omitempty"`
	Observed  map[string]interface{} `json:"observed,omitempty"`
	Pinned    []string               `json:"pinned,omitempty"`
	Confirmed bool                   `json:"confirmed"`
	Note      string                 `json:"note,omitempty"`
}

func safeFile(s string) string {
	s = strings.NewReplacer("/", "__", " ", "_", "*", "", "(", "", ")", "", ":", "_", "|", "_", "$", "_", "#", "-").Replace(s)
	if len(s) > 150 {
		s = s[:150]
	}
	return s
}

func report(eng *Engine, prop, tier string, seed int, start time.Time, runs []*Run, obls []*oblig, vacuous, toolErrs []string, queries []*Query) {
	verif := *flagVerif
	findings := loadFindings(filepath.Join(verif, "known_findings.txt"))
	known := map[string]finding{}
	for _, f := range findings {
		if f.Kind == "finding" {
			known[f.Obligation] = f
		}
	}
	pid := orAll(prop)

	// expected obligations (vanished-obligation guard)
	expPath := filepath.Join(verif, "expected", pid+".json")
	var names []string
	for _, o := range obls {
		if !o.Dep {
			names = append(names, o.Name)
		}
	}
	if *flagUpdate {
		writeJSON(expPath, names) //nolint:errcheck
	}
	var expected []string
	if b, err := os.ReadFile(expPath); err == nil {
		json.Unmarshal(b, &expected) //nolint:errcheck
	}
	have := map[string]bool{}
	for _, n := range names {
		have[n] = true
	}
	var vanished []string
	if *flagFn == "" {
		for _, n := range expected {
			if strings.Contains(n, "/safe:") || strings.Contains(n, "/frame:") || strings.Contains(n, "/call:") ||
				strings.Contains(n, "/fsframe:") || strings.Contains(n, "/crashinv:") || (strings.Contains(n, "/ensures:") && strings.Contains(n, "@")) {
				// obligations attached to an instruction on behalf of the instruction itself (panic freedom, a callee's precondition, the path
				// frame / crash invariant / failure clause at one primitive): when the instruction is gone there is nothing left to check.
				// Clauses the *function* owes at a site (site:, send:, go:), its postconditions, loops and lemmas must not vanish.
				continue
			}
			if !have[n] {
				vanished = append(vanished, n)
			}
		}
	}

	type viol struct {
		name, reason string
		o            *oblig
	}
	var viols []viol
	var knownHit []string
	discharged := 0
	counted := 0
	skipped := 0
	bySolver := map[string]int{}
	solverTime := 0.0
	for _, o := range obls {
		solverTime += o.Seconds
		if o.Status == "discharged" {
			counted++
			discharged++
			bySolver[o.Solver]++
			continue
		}
		if f, ok := known[o.Name]; ok {
			kp := pid
			if o.Dep && f.Prop != "" {
				kp = f.Prop // a clause of another property that this proof relies on: reported under its own property
			}
			knownHit = append(knownHit, fmt.Sprintf("KNOWN-FINDING: property=%s obligation=%s %s", kp, o.Name, strings.TrimSpace(strings.SplitN(f.Text, "—", 2)[len(strings.SplitN(f.Text, "—", 2))-1])))
			continue
		}
		counted++
		if o.Status == "not-attempted" {
			skipped++
			continue
		}
		st := o.Status
		if o.Dep {
			st += " (a clause tagged " + strings.Join(o.Props, ",") + " that the proof of " + pid + " relies on at a call site)"
		}
		viols = append(viols, viol{o.Name, st, o})
	}
	if skipped > 0 {
		viols = append(viols, viol{fmt.Sprintf("tool:%d further obligations were not attempted", skipped), "functions that already fail several obligations (or the run's time budget) leave their remaining obligations undecided", nil})
	}
	for _, n := range vanished {
		if _, ok := known[n]; ok {
			continue
		}
		viols = append(viols, viol{n, "vanished: this obligation is generated on the pinned tree but the code it was attached to is gone or no longer matches its contract", nil})
		counted++
	}
	for _, v := range vacuous {
		toolErrs = append(toolErrs, "vacuous precondition: "+v+" is unsatisfiable")
	}
	for _, te := range toolErrs {
		viols = append(viols, viol{"tool:" + te, "the verifier could not generate or trust the obligations of this function; every obligation of it counts as undischarged", nil})
		counted++
	}

	// thorough tier: bounded conformance results for the assumptions this property's proof actually uses
	var bounded []map[string]interface{}
	if gConformance != nil {
		usedAx, usedExt := map[string]bool{}, map[string]bool{}
		for _, q := range queries {
			_, used := eng.C.prelude(q.Uses, "")
			for _, u := range used {
				if strings.HasPrefix(u, "axiom:") {
					usedAx[strings.TrimPrefix(u, "axiom:")] = true
				}
			}
		}
		for _, r := range runs {
			for _, n := range r.notes {
				if n.Kind == "extern" {
					usedExt[n.Msg] = true
				}
			}
		}
		if gConformance.Error != "" {
			bounded = append(bounded, map[string]interface{}{"name": "conformance tests", "status": "not run", "why": gConformance.Error})
		}
		for _, res := range gConformance.Results {
			if !((res.Kind == "axiom" && usedAx[res.Name]) || (res.Kind == "extern" && usedExt[res.Name])) {
				continue
			}
			m := map[string]interface{}{"name": res.Kind + " " + res.Name, "status": res.Status, "level": "bounded", "instances": res.Instances + res.Calls}
			if res.Why != "" {
				m["why"] = res.Why
			}
			bounded = append(bounded, m)
			if res.Status == "CONTRADICTED" {
				ce, _ := json.Marshal(res.Counterexample)
				viols = append(viols, viol{"assumption:" + res.Kind + " " + res.Name, "the real library contradicts this assumed clause on a generated input, so proofs that use it decide nothing: " + string(ce), nil})
				counted++
			}
		}
	}

	for _, k := range knownHit {
		fmt.Println(k)
	}
	replayDir := filepath.Join(verif, "replays", pid)
	if !*flagNoEvid {
		os.RemoveAll(replayDir) //nolint:errcheck
	}
	modelSearches := 0
	for _, v := range viols {
		rf := &replayFile{Property: pid, Obligation: v.name, Status: v.reason, Solver: map[string]string{}}
		noInput := true
		if v.o != nil {
			first := true
			for _, q := range v.o.Queries {
				if q.Result.Status == "unsat" || strings.HasPrefix(q.Result.Outputs["govc"], "not attempted") {
					continue
				}
				if first {
					rf.Goal = q.Goal
					rf.Trace = q.Trace
					rf.Script = q.Result.File
					for s, o := range q.Result.Outputs {
						rf.Solver[s] = trunc(o, 1500)
					}
					if q.Result.Status == "sat" {
						rf.Reason = "solver found a state satisfying the path condition and violating the clause"
					} else {
						rf.Reason = "no solver discharged this obligation within the time limit (it is discharged on the pinned tree)"
					}
					first = false
				}
				if *flagNoReplay || q.Run == nil || !(q.Kind == "ensures" || q.Kind == "safety") || !replayableFn(q.Run.fn) || modelSearches >= 12 {
					continue
				}
				// candidate input: the solver's model, or one found with concrete definitions and no axioms; then the real code decides
				modelSearches++
				cand := q.Result
				if q.Result.Status != "sat" {
					cand = findModel(eng, q)
				}
				if cand == nil {
					continue
				}
				saved := q.Result
				q.Result = cand
				q.concrete = true
				out := tryReplay(eng, q, nil)
				q.concrete = false
				q.Result = saved
				if out == nil {
					continue
				}
				if rf.Replay == nil || out.Confirmed {
					rf.Replay = out
					rf.Model = parseModel(cand.Model)
					rf.Trace = q.Trace
					rf.Goal = q.Goal
				}
				if out.Confirmed {
					noInput = false
					rf.Reason += "; a failing input was found and confirmed on the real code"
					break
				}
			}
		} else {
			rf.Reason = v.reason
		}
		path := filepath.Join(replayDir, safeFile(v.name)+".json")
		writeJSON(path, rf) //nolint:errcheck
		line := fmt.Sprintf("VIOLATION property=%s replay=%s", pid, path)
		if noInput {
			line += " no-failing-input-found"
		}
		fmt.Printf("%s   [%s: %s]\n", line[:0]+"", v.name, trunc(v.reason, 80))
		fmt.Println(line)
	}

	// evidence
	var fns []string
	tb := map[string]bool{}
	assume := map[string]bool{}
	paths := 0
	for _, r := range runs {
		fns = append(fns, r.name)
		paths += r.retPaths
		for _, n := range r.notes {
			switch n.Kind {
			case "extern":
				tb["extern contract (assumed): "+n.Msg] = true
			case "inlined":
				tb["inlined without own contract: "+n.Msg] = true
			case "assumption":
				assume[n.Msg] = true
			default:
				tb[n.Kind+": "+n.Msg] = true
			}
		}
	}
	for _, r := range runs {
		for k, v := range r.foreign {
			tb["callee clause discharged under another property's check ("+v+"): "+k] = true
		}
	}
	axUsed := map[string]bool{}
	for _, q := range queries {
		_, used := eng.C.prelude(q.Uses, "")
		for _, u := range used {
			axUsed[u] = true
		}
	}
	for u := range axUsed {
		if strings.HasPrefix(u, "axiom:") {
			tb["axiom (assumed): "+strings.TrimPrefix(u, "axiom:")] = true
		}
	}
	sort.Strings(fns)
	var samples []interface{}
	for i, o := range obls {
		if i%maxInt(1, len(obls)/12) == 0 {
			sz := 0
			if len(o.Queries) > 0 && o.Queries[0].Result != nil && o.Queries[0].Result.File != "" {
				if fi, err := os.Stat(o.Queries[0].Result.File); err == nil {
					sz = int(fi.Size())
				}
			}
			samples = append(samples, map[string]interface{}{"obligation": o.Name, "status": o.Status, "solver": o.Solver, "queries": len(o.Queries), "smt_bytes": sz, "goal": trunc(firstGoal(o), 300)})
		}
	}
	var perObl []map[string]interface{}
	depTotal, depDischarged := 0, 0
	for _, o := range obls {
		m := map[string]interface{}{"name": o.Name, "status": o.Status, "solver": o.Solver, "seconds": round3(o.Seconds), "paths": len(o.Queries)}
		if o.Dep {
			m["dependency_of_this_proof"] = true
			depTotal++
			if o.Status == "discharged" {
				depDischarged++
			}
		}
		perObl = append(perObl, m)
	}
	globalAssume := []string{
		"govc (SSA semantics, VC generation) and the SMT solvers are trusted; mitigated by the must-fail corpus in /verif/selftest",
		"int/uint are 64-bit; every string/slice length is below 2^48; integers are mathematical and every + - * on a sized integer type carries a proved no-overflow obligation (safe:overflow), explicit conversions are exact (mod 2^n)",
		"package-level variables are never reassigned after initialisation; error-typed globals are non-nil and pairwise distinct",
		"goroutine interleaving is not modelled: a go statement is an event, channel receives yield unconstrained values",
		"log output and printing to stdout are effect-free; library calls terminate; no resource exhaustion",
	}
	for a := range assume {
		globalAssume = append(globalAssume, a)
	}
	sort.Strings(globalAssume[5:])
	ev := map[string]interface{}{
		"property_id": pid,
		"tier":        tier,
		"seed":        seed,
		"level":       "proof",
		"coverage": map[string]interface{}{
			"obligations":              counted,
			"discharged":               discharged,
			"checker_cmd":              fmt.Sprintf("/verif/bin/govc -prop %s -tier %s  (VCs from go/ssa naive form of %s; solvers z3 4.8.12, z3 5.1.0, cvc5 1.0.3 raced per query)", pid, tier, *flagRepo),
			"trusted_base":             sortedKeys(tb),
			"functions_under_contract": fns,
			"return_paths":             paths,
			"smt_queries":              len(queries),
			"by_solver":                bySolver,
			"solver_time_s":            round3(solverTime),
			"known_findings_hit":       knownHit,
			"samples":                  samples,
			"obligation_list":          perObl,
			"vanished_obligations":     vanished,
			"tool_errors":              toolErrs,
			"bounded_conformance":      map[string]interface{}{"what": "thorough tier: the assumed extern contracts and axioms used by this property, evaluated against the real libraries on a generated corpus (tools/conformance.py); bounded, not counted as discharged", "results": bounded},
			"dependency_ring":          map[string]interface{}{"checked": ring(tier, prop), "obligations": depTotal, "discharged": depDischarged, "what": "clauses tagged with other properties only that this property's proof assumes at call sites, and everything those rest on (thorough tier)"},
		},
		"assumptions": globalAssume,
		"wall_s":      round3(time.Since(start).Seconds()),
		"violations":  len(viols),
	}
	if !*flagNoEvid && prop != "" && *flagFn == "" {
		if err := writeJSON(filepath.Join(verif, "evidence", pid+".json"), ev); err != nil {
			fmt.Fprintf(os.Stderr, "govc: cannot write evidence: %v\n", err)
			os.Exit(2)
		}
	}
	fmt.Printf("govc: property %s tier %s: %d functions, %d obligations, %d discharged, %d known findings, %d violations, %.1fs\n",
		pid, tier, len(fns), counted, discharged, len(knownHit), len(viols), time.Since(start).Seconds())
	if counted == 0 {
		fmt.Println("govc: no obligations were generated (vacuous run)")
		os.Exit(2)
	}
	if len(viols) > 0 {
		os.Exit(1)
	}
}

func ring(tier, prop string) bool { return tier == "thorough" && prop != "" && *flagFn == "" }

func firstGoal(o *oblig) string {
	if len(o.Queries) > 0 {
		return o.Queries[0].Goal
	}
	return ""
}

func maxInt(a, b int) int {
	if a > b {
		return a
	}
	return b
}

func round3(f float64) float64 { return float64(int(f*1000+0.5)) / 1000 }

// parseModel extracts (define-fun name () Sort value) entries for scalar symbols from a solver model.
func parseModel(out string) map[string]string {
	m := map[string]string{}
	idx := strings.Index(out, "\n")
	if idx < 0 {
		return m
	}
	forms, err := parseAll("model", out[idx+1:], 1)
	if err != nil {
		return m
	}
	var visit func(s *SX)
	visit = func(s *SX) {
		if s.Head() == "define-fun" && len(s.List) == 5 && s.List[2].IsList() && len(s.List[2].List) == 0 {
			v := s.List[4].String()
			if len(v) < 400 {
				m[s.List[1].Atom] = v
			}
			return
		}
		for _, c := range s.List {
			if c.IsList() {
				visit(c)
			}
		}
	}
	for _, f := range forms {
		visit(f)
	}
	return m
}

// findModel retries an undecided query in model-finding mode.
func findModel(eng *Engine, q *Query) *SolveResult {
	q.concrete = true
	defer func() { q.concrete = false }()
	dir := gWorkDir
	if q.Result != nil && q.Result.File != "" {
		dir = filepath.Dir(q.Result.File)
	}
	r := solveScript(q, eng.C, dir, 20, false, q.PC, ".concrete")
	if r.Status == "sat" {
		return r
	}
	return nil
}
