package main

import (
	"fmt"
	"go/ast"
	"go/parser"
	"go/token"
	"os"
	"path/filepath"
	"sort"
	"strings"
)

// Clause is a labelled contract expression.
type Clause struct {
	Kind  string // requires ensures invariant crashinv fsframe assume
	Label string
	Props []string
	Expr  *SX
	// Only for ensures: restrict to a kind of exit ("" = normal return)
}

type GhostUpdate struct {
	On     string // "call" | "recv"
	Target string // callee name / channel field
	Ghost  string
	Expr   *SX
}

type LoopSpec struct {
	Ordinal    int
	Assumes    []*Clause // trusted facts assumed at the loop head (listed as assumptions)
	Invariants []*Clause
	Decreases  *SX
}

type SiteSpec struct {
	Callee   string // normalized callee name, or channel field for send
	Ordinal  int    // -1 = every site
	Requires []*Clause
	IsSend   bool
	InPkg    string // everywhere-clauses: restrict to calls made by functions of this package
	ValueOf  string // send: instead of an ordinal, "the send whose value is the result of a call to this function"
}

type Contract struct {
	Kind     string // func extern iface functype
	Name     string
	File     string
	Line     int
	Params   []string // formal names (extern/iface/functype); for func taken from SSA
	Results  []string // optional result names
	Props    []string
	Requires []*Clause
	Ensures  []*Clause
	TrustedEnsures []*Clause // assumed at call sites, not checked against the body (listed as assumptions)
	Assumes  []*Clause // trusted facts assumed at entry of a verified func (listed as assumptions)
	Modifies []*SX
	Uses     []string
	Needs    []string
	Loops    map[int]*LoopSpec
	Sites    []*SiteSpec
	CrashInv []*Clause
	FsFrame  []*Clause
	Nullable map[string]bool
	Inline   bool // never use the contract at call sites; always inline (func only)
	NoBody   bool // func: do not verify body (trusted); must be listed
	Pure     bool
	MayPanic bool // extern: callee may panic unless requires hold (informational)
	Frame    bool // func: check ghost frame (default true)
	Overflow bool
	Ghosts   []*GhostUpdate // ghost code attached to events inside this function
	Fresh    []string // results that are newly allocated objects (or nil)
	Wraps    bool // integer arithmetic of this function wraps (no overflow obligations)
	FsPath   *SX    // extern: expression (over formals) giving the file-system path this primitive acts on
	FsOp     string // extern: kind of file-system operation (read, create, write, rename-from, ...)
}

type Decl struct {
	Kind string // ghost uf spec specrec axiom lemma sort const
	Name string
	SX   *SX
	File string
	Line int
	// axiom/lemma
	Props []string
	Body  *SX
	By    string
	Uses  []string
	Needs []string // lemmas that justify this axiom: proved whenever it is used, but not asserted
}

type Contracts struct {
	Everywhere []*SiteSpec // site clauses that apply in every function
	Decls    []*Decl
	DeclBy   map[string]*Decl
	Ghosts   []*Decl
	ByName   map[string]*Contract
	Order    []*Contract
	Files    []string
	Always   []string // axioms always included
	ReadOnly map[string]bool
	constID  map[string]string // fnconst/typeconst name -> numeral, filled in by the engine
	Macros   map[string]*SX
	Concrete map[string]string
}

func newContracts() *Contracts {
	return &Contracts{DeclBy: map[string]*Decl{}, ByName: map[string]*Contract{}, ReadOnly: map[string]bool{}, constID: map[string]string{}, Macros: map[string]*SX{}, Concrete: map[string]string{}}
}

// loadGoContractFile extracts /*@ ... */ blocks from a comment-only Go file.
func (c *Contracts) loadGoContractFile(path string) error {
	fset := token.NewFileSet()
	f, err := parser.ParseFile(fset, path, nil, parser.ParseComments)
	if err != nil {
		return err
	}
	if len(f.Decls) != 0 {
		return fmt.Errorf("%s: contract file must contain no declarations (found %d)", path, len(f.Decls))
	}
	for _, cg := range f.Comments {
		for _, cm := range cg.List {
			if strings.HasPrefix(cm.Text, "/*@") {
				body := strings.TrimSuffix(cm.Text[3:], "*/")
				line := fset.Position(cm.Pos()).Line
				if err := c.loadText(path, body, line); err != nil {
					return err
				}
			}
		}
	}
	c.Files = append(c.Files, path)
	return nil
}

var _ = ast.Print

func (c *Contracts) loadVCFile(path string) error {
	b, err := os.ReadFile(path)
	if err != nil {
		return err
	}
	c.Files = append(c.Files, path)
	return c.loadText(path, string(b), 1)
}

func (c *Contracts) loadDir(dir string) error {
	ents, err := filepath.Glob(filepath.Join(dir, "*.vc"))
	if err != nil {
		return err
	}
	sort.Strings(ents)
	for _, e := range ents {
		if err := c.loadVCFile(e); err != nil {
			return err
		}
	}
	return nil
}

func atoms(s *SX) []string {
	var out []string
	for _, e := range s.List {
		out = append(out, e.Atom)
	}
	return out
}

func (c *Contracts) loadText(file, text string, line int) error {
	forms, err := parseAll(file, text, line)
	if err != nil {
		return err
	}
	for _, f := range forms {
		if err := c.loadForm(file, f); err != nil {
			return err
		}
	}
	return nil
}

func errAt(file string, s *SX, format string, a ...interface{}) error {
	return fmt.Errorf("%s:%d: %s", file, s.Line, fmt.Sprintf(format, a...))
}

func (c *Contracts) addDecl(d *Decl) error {
	if _, dup := c.DeclBy[d.Kind+":"+d.Name]; dup {
		return fmt.Errorf("%s:%d: duplicate %s %s", d.File, d.Line, d.Kind, d.Name)
	}
	c.DeclBy[d.Kind+":"+d.Name] = d
	c.Decls = append(c.Decls, d)
	return nil
}

func (c *Contracts) loadForm(file string, f *SX) error {
	if f.Head() != "macro" && len(c.Macros) > 0 {
		f = c.expandMacros(f, 0)
	}
	h := f.Head()
	switch h {
	case "ghost":
		// (ghost name Sort)
		if len(f.List) < 3 {
			return errAt(file, f, "ghost needs name and sort")
		}
		d := &Decl{Kind: "ghost", Name: f.List[1].Atom, SX: f, File: file, Line: f.Line}
		c.Ghosts = append(c.Ghosts, d)
		return c.addDecl(d)
	case "readonly":
		for _, a := range f.List[1:] {
			c.ReadOnly[a.Atom] = true
		}
		return nil
	case "macro":
		// (macro (name p1 p2 ...) body): expanded in every contract expression loaded afterwards
		if len(f.List) != 3 || !f.List[1].IsList() {
			return errAt(file, f, "macro: (macro (name params...) body)")
		}
		c.Macros[f.List[1].List[0].Atom] = f
		return nil
	case "everywhere":
		// (everywhere (callsite "callee" (requires label (props ..) expr) ...)): an obligation at EVERY call of callee that is executed
		// while verifying any function (also inside inlined helpers that have no contract of their own); names of the expression
		// are resolved in the function that contains the call
		inPkg := ""
		for _, e := range f.List[1:] {
			if e.Head() == "in" && len(e.List) == 2 {
				inPkg = e.List[1].Atom // only calls made by functions of this package (name as in function names: "main", "store")
				continue
			}
			if e.Head() != "callsite" || len(e.List) < 3 {
				return errAt(file, e, "everywhere: (everywhere (callsite \"callee\" (requires ...)))")
			}
			ss := &SiteSpec{Ordinal: -1, Callee: e.List[1].Atom, InPkg: inPkg}
			for _, se := range e.List[2:] {
				cl, err := parseClause(file, "requires", se)
				if err != nil {
					return err
				}
				ss.Requires = append(ss.Requires, cl)
			}
			c.Everywhere = append(c.Everywhere, ss)
		}
		return nil
	case "structural":
		// (structural regex-literal "pkg.var" "literal" (props ...)): a fact about the program text, checked on the SSA without a solver
		d := &Decl{Kind: "structural", Name: f.List[1].Atom + ":" + f.List[2].Atom, SX: f, File: file, Line: f.Line}
		for _, e := range f.List[3:] {
			if e.Head() == "props" {
				d.Props = atoms(e)[1:]
			}
		}
		return c.addDecl(d)
	case "fnconst":
		// (fnconst name "pkg.Func"): a named constant holding the identity of a Go function
		return c.addDecl(&Decl{Kind: "fnconst", Name: f.List[1].Atom, SX: f, File: file, Line: f.Line})
	case "typeconst":
		return c.addDecl(&Decl{Kind: "typeconst", Name: f.List[1].Atom, SX: f, File: file, Line: f.Line})
	case "concrete":
		// (concrete uf spec): in model-finding mode the uninterpreted function is replaced by this concrete spec function
		c.Concrete[f.List[1].Atom] = f.List[2].Atom
		return nil
	case "sort", "uf", "const":
		return c.addDecl(&Decl{Kind: h, Name: f.List[1].Atom, SX: f, File: file, Line: f.Line})
	case "spec", "specrec":
		// (spec (name (x S)...) S body)
		if len(f.List) != 4 || !f.List[1].IsList() {
			return errAt(file, f, "spec: (spec (name (x S)...) S body)")
		}
		return c.addDecl(&Decl{Kind: h, Name: f.List[1].List[0].Atom, SX: f, File: file, Line: f.Line})
	case "axiom", "lemma":
		d := &Decl{Kind: h, Name: f.List[1].Atom, SX: f, File: file, Line: f.Line}
		for _, e := range f.List[2:] {
			switch e.Head() {
			case "props":
				d.Props = atoms(e)[1:]
			case "by":
				d.By = e.List[1].Atom
			case "use":
				d.Uses = atoms(e)[1:]
			case "needs":
				d.Needs = atoms(e)[1:]
			case "always":
				c.Always = append(c.Always, d.Name)
			default:
				if d.Body != nil {
					return errAt(file, e, "%s %s has two bodies", h, d.Name)
				}
				d.Body = e
			}
		}
		if d.Body == nil {
			return errAt(file, f, "%s %s has no body", h, d.Name)
		}
		var ierr error
		d.Body = c.expandInst(file, d, d.Body, &ierr)
		if ierr != nil {
			return ierr
		}
		return c.addDecl(d)
	case "func", "extern", "iface", "functype":
		return c.loadContract(file, f)
	default:
		return errAt(file, f, "unknown top-level form %q", h)
	}
}

func parseClause(file, kind string, e *SX) (*Clause, error) {
	// (kind label [(props ...)] expr)
	if len(e.List) < 3 {
		return nil, errAt(file, e, "%s needs a label and an expression", kind)
	}
	cl := &Clause{Kind: kind, Label: e.List[1].Atom}
	rest := e.List[2:]
	if rest[0].Head() == "props" {
		cl.Props = atoms(rest[0])[1:]
		rest = rest[1:]
	}
	if len(rest) != 1 {
		return nil, errAt(file, e, "%s %s: expected exactly one expression, got %d", kind, cl.Label, len(rest))
	}
	cl.Expr = rest[0]
	return cl, nil
}

func (c *Contracts) loadContract(file string, f *SX) error {
	k := f.Head()
	if len(f.List) < 2 || !f.List[1].IsStr {
		return errAt(file, f, "%s needs a quoted name", k)
	}
	ct := &Contract{Kind: k, Name: f.List[1].Atom, File: file, Line: f.Line, Loops: map[int]*LoopSpec{}, Nullable: map[string]bool{}, Frame: true}
	rest := f.List[2:]
	if k != "func" {
		if len(rest) == 0 || !rest[0].IsList() || rest[0].Head() == "requires" {
			return errAt(file, f, "%s %s needs a parameter list", k, ct.Name)
		}
		for _, p := range rest[0].List {
			ct.Params = append(ct.Params, p.Atom)
		}
		rest = rest[1:]
	}
	for _, e := range rest {
		switch e.Head() {
		case "returns":
			ct.Results = atoms(e)[1:]
		case "props":
			ct.Props = atoms(e)[1:]
		case "requires", "ensures", "assume", "crashinv", "fsframe", "trusted-ensures":
			cl, err := parseClause(file, e.Head(), e)
			if err != nil {
				return err
			}
			switch e.Head() {
			case "requires":
				ct.Requires = append(ct.Requires, cl)
			case "ensures":
				ct.Ensures = append(ct.Ensures, cl)
			case "trusted-ensures":
				ct.TrustedEnsures = append(ct.TrustedEnsures, cl)
			case "assume":
				ct.Assumes = append(ct.Assumes, cl)
			case "crashinv":
				ct.CrashInv = append(ct.CrashInv, cl)
			case "fsframe":
				ct.FsFrame = append(ct.FsFrame, cl)
			}
		case "modifies":
			ct.Modifies = append(ct.Modifies, e.List[1:]...)
		case "use":
			ct.Uses = append(ct.Uses, atoms(e)[1:]...)
		case "needs":
			ct.Needs = append(ct.Needs, atoms(e)[1:]...)
		case "nullable":
			for _, a := range atoms(e)[1:] {
				ct.Nullable[a] = true
			}
		case "inline":
			ct.Inline = true
		case "trusted":
			ct.NoBody = true
		case "pure":
			ct.Pure = true
		case "noframe":
			ct.Frame = false
		case "overflow":
			ct.Overflow = true
		case "wraps":
			ct.Wraps = true
		case "fresh":
			ct.Fresh = append(ct.Fresh, atoms(e)[1:]...)
		case "oncall", "onrecv":
			// (oncall "callee" (set ghost expr)...) / (onrecv "chanfield" (set ghost expr)...)
			for _, u := range e.List[2:] {
				if u.Head() != "set" || len(u.List) != 3 {
					return errAt(file, u, "ghost update must be (set ghost expr)")
				}
				ct.Ghosts = append(ct.Ghosts, &GhostUpdate{On: strings.TrimPrefix(e.Head(), "on"), Target: e.List[1].Atom, Ghost: u.List[1].Atom, Expr: u.List[2]})
			}
		case "fspath":
			ct.FsPath = e.List[1]
			if len(e.List) > 2 {
				ct.FsOp = e.List[2].Atom
			}
		case "loop":
			ls := &LoopSpec{}
			fmt.Sscanf(e.List[1].Atom, "%d", &ls.Ordinal)
			for _, le := range e.List[2:] {
				switch le.Head() {
				case "invariant":
					cl, err := parseClause(file, "invariant", le)
					if err != nil {
						return err
					}
					ls.Invariants = append(ls.Invariants, cl)
				case "decreases":
					ls.Decreases = le.List[1]
				case "assume":
					cl, err := parseClause(file, "assume", le)
					if err != nil {
						return err
					}
					ls.Assumes = append(ls.Assumes, cl)
				default:
					return errAt(file, le, "unknown loop clause %q", le.Head())
				}
			}
			ct.Loops[ls.Ordinal] = ls
		case "callsite", "send":
			ss := &SiteSpec{IsSend: e.Head() == "send", Ordinal: -1}
			if len(e.List) < 3 {
				return errAt(file, e, "callsite needs callee, ordinal, clauses")
			}
			ss.Callee = e.List[1].Atom
			i := 2
			if e.List[i].IsAtom() && !e.List[i].IsStr {
				if e.List[i].Atom != "*" {
					fmt.Sscanf(e.List[i].Atom, "%d", &ss.Ordinal)
				}
				i++
			} else if e.List[i].Head() == "of" && len(e.List[i].List) == 2 {
				ss.ValueOf = e.List[i].List[1].Atom
				i++
			}
			for _, se := range e.List[i:] {
				if se.Head() != "requires" {
					return errAt(file, se, "callsite clause must be requires")
				}
				cl, err := parseClause(file, "requires", se)
				if err != nil {
					return err
				}
				ss.Requires = append(ss.Requires, cl)
			}
			ct.Sites = append(ct.Sites, ss)
		default:
			return errAt(file, e, "unknown clause %q in %s %s", e.Head(), k, ct.Name)
		}
	}
	key := ct.Name
	if _, dup := c.ByName[key]; dup {
		return errAt(file, f, "duplicate contract for %s", key)
	}
	c.ByName[key] = ct
	c.Order = append(c.Order, ct)
	return nil
}

func hasProp(props []string, p string) bool {
	for _, x := range props {
		if x == p {
			return true
		}
	}
	return false
}

// clauseProps returns the properties a clause belongs to (clause override, else contract default).
func (ct *Contract) clauseProps(cl *Clause) []string {
	if len(cl.Props) > 0 {
		return cl.Props
	}
	return ct.Props
}

// expandInst replaces (inst lemma e1 e2 ...) by the body of that (already declared, universally
// quantified) lemma with its bound variables set to the given terms. The lemma is added to Needs,
// so it is proved in every run that uses the result.
func (c *Contracts) expandInst(file string, d *Decl, x *SX, err *error) *SX {
	if x.IsAtom() {
		return x
	}
	if x.Head() == "inst" {
		name := x.List[1].Atom
		l := c.DeclBy["lemma:"+name]
		if l == nil {
			l = c.DeclBy["axiom:"+name]
		}
		if l == nil {
			*err = errAt(file, x, "inst: unknown lemma %q (must be declared earlier)", name)
			return x
		}
		if l.Body.Head() != "forall" || len(l.Body.List[1].List) != len(x.List)-2 {
			*err = errAt(file, x, "inst %s: lemma is not a forall over %d variables", name, len(x.List)-2)
			return x
		}
		d.Needs = append(d.Needs, name)
		var binds []*SX
		for i, v := range l.Body.List[1].List {
			binds = append(binds, &SX{List: []*SX{{Atom: v.List[0].Atom}, c.expandInst(file, d, x.List[2+i], err)}})
		}
		body := l.Body.List[2]
		if body.Head() == "!" {
			body = body.List[1]
		}
		return &SX{List: []*SX{{Atom: "let"}, {List: binds}, body}, Line: x.Line}
	}
	n := &SX{List: make([]*SX, len(x.List)), Line: x.Line}
	for i, e := range x.List {
		n.List[i] = c.expandInst(file, d, e, err)
	}
	return n
}

func substSX(x *SX, env map[string]*SX) *SX {
	if x.IsAtom() {
		if !x.IsStr {
			if v, ok := env[x.Atom]; ok {
				return v
			}
		}
		return x
	}
	n := &SX{List: make([]*SX, len(x.List)), Line: x.Line}
	for i, e := range x.List {
		n.List[i] = substSX(e, env)
	}
	return n
}

func (c *Contracts) expandMacros(x *SX, depth int) *SX {
	if x.IsAtom() || depth > 20 {
		return x
	}
	n := &SX{List: make([]*SX, len(x.List)), Line: x.Line}
	for i, e := range x.List {
		n.List[i] = c.expandMacros(e, depth)
	}
	if m, ok := c.Macros[n.Head()]; ok {
		params := m.List[1].List[1:]
		if len(params) == len(n.List)-1 {
			env := map[string]*SX{}
			for i, p := range params {
				env[p.Atom] = n.List[i+1]
			}
			return c.expandMacros(substSX(m.List[2], env), depth+1)
		}
	}
	return n
}
