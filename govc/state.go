package main

import (
	"fmt"
	"go/types"
	"os"
	"runtime/debug"
	"sort"
	"strings"

	"golang.org/x/tools/go/ssa"
)

type State struct {
	freshRefs []string // references returned as newly allocated by callees on this path
	calls   map[string][]*Val // results of the calls made on this path, by site name
	lits    map[string]bool
	heapGen int
	pc     []string
	heap   map[string]string
	ghost  map[string]string
	cells  map[int]*Val
	hbVer  int
	uses   map[string]bool
	trace  []string
	events []string // names of fs-modifying call sites passed (for crash invariants)
}

func (s *State) clone() *State {
	n := &State{hbVer: s.hbVer, heapGen: s.heapGen}
	n.pc = append([]string(nil), s.pc...)
	n.trace = append([]string(nil), s.trace...)
	n.events = append([]string(nil), s.events...)
	n.heap = make(map[string]string, len(s.heap))
	for k, v := range s.heap {
		n.heap[k] = v
	}
	n.ghost = make(map[string]string, len(s.ghost))
	for k, v := range s.ghost {
		n.ghost[k] = v
	}
	n.cells = make(map[int]*Val, len(s.cells))
	for k, v := range s.cells {
		n.cells[k] = v
	}
	n.freshRefs = append([]string(nil), s.freshRefs...)
	n.calls = make(map[string][]*Val, len(s.calls))
	for k, v := range s.calls {
		n.calls[k] = v
	}
	n.lits = make(map[string]bool, len(s.lits))
	for k, v := range s.lits {
		n.lits[k] = v
	}
	n.uses = make(map[string]bool, len(s.uses))
	for k, v := range s.uses {
		n.uses[k] = v
	}
	return n
}

func (s *State) assume(t string) {
	if t == "true" || t == "" {
		return
	}
	if s.lits == nil {
		s.lits = map[string]bool{}
	}
	if s.lits[t] {
		return // already assumed on this path
	}
	s.pc = append(s.pc, t)
	s.lits[t] = true
}

// contradicts reports whether assuming t is syntactically inconsistent with an earlier assumption.
func (s *State) contradicts(t string) bool {
	return t == "false" || s.lits[not(t)]
}

type Frame struct {
	fn       *ssa.Function
	vals     map[ssa.Value]*Val
	defers   []*deferred
	cellsBy  map[string][]*Cell // source name -> cells in allocation order
	allocs   map[*ssa.Alloc]*Cell
	depth    int
	siteOrd  map[string]int // call-site ordinals are static; see Run.siteOrdinals
	loopOld  map[*ssa.BasicBlock]string
	loopPre  map[*ssa.BasicBlock]*State // state on first arrival at a loop header, for (pre e) in invariants
	top      bool
	retNames []string
	parent   *Frame // the frame that called this (inlined) function; nil for the function under verification
}

type deferred struct {
	call *ssa.Defer
	args []*Val
	fnv  *Val
}

func (f *Frame) clone() *Frame {
	n := &Frame{fn: f.fn, depth: f.depth, top: f.top, siteOrd: f.siteOrd, retNames: f.retNames, parent: f.parent}
	n.vals = make(map[ssa.Value]*Val, len(f.vals))
	for k, v := range f.vals {
		n.vals[k] = v
	}
	n.defers = append([]*deferred(nil), f.defers...)
	n.cellsBy = make(map[string][]*Cell, len(f.cellsBy))
	for k, v := range f.cellsBy {
		n.cellsBy[k] = append([]*Cell(nil), v...)
	}
	n.allocs = make(map[*ssa.Alloc]*Cell, len(f.allocs))
	for k, v := range f.allocs {
		n.allocs[k] = v
	}
	n.loopOld = make(map[*ssa.BasicBlock]string, len(f.loopOld))
	for k, v := range f.loopOld {
		n.loopOld[k] = v
	}
	n.loopPre = make(map[*ssa.BasicBlock]*State, len(f.loopPre))
	for k, v := range f.loopPre {
		n.loopPre[k] = v
	}
	return n
}

// ---- declarations and fresh symbols (per Run) ----

func (r *Run) declare(name, sort string) string {
	s := sym(name)
	if !r.declSet[s] {
		r.declSet[s] = true
		r.decls = append(r.decls, fmt.Sprintf("(declare-fun %s () %s)", s, sort))
	}
	return s
}

func (r *Run) declareFun(name, sig string) {
	if r.eng.C.DeclBy["uf:"+sym(name)] != nil || r.eng.C.DeclBy["uf:"+name] != nil {
		return
	}
	s := sym(name)
	if !r.declSet[s] {
		r.declSet[s] = true
		i := strings.Index(sig, ") ")
		r.decls = append(r.decls, fmt.Sprintf("(declare-fun %s %s %s)", s, sig[:i+1], sig[i+2:]))
	}
}

func (r *Run) fresh(hint, sort string) string {
	r.freshN++
	hint = strings.Map(func(c rune) rune {
		if c >= 'a' && c <= 'z' || c >= 'A' && c <= 'Z' || c >= '0' && c <= '9' || c == '_' || c == '.' {
			return c
		}
		return '_'
	}, hint)
	return r.declare(fmt.Sprintf("%s!%d", hint, r.freshN), sort)
}

func (r *Run) heapArr(st *State, name, elemSort string) string {
	if t, ok := st.heap[name]; ok && t != "" {
		return t
	}
	if t, ok := st.heap[name]; (ok && t == "") || st.heapGen > 0 {
		// havocked before its first use on this path
		r.freshN++
		t = r.declare(fmt.Sprintf("%s@g%d", name, r.freshN), "(Array Int "+elemSort+")")
		st.heap[name] = t
		return t
	}
	// declared once per run with a stable initial name, so that clones agree
	t := r.declare(name+"@0", "(Array Int "+elemSort+")")
	st.heap[name] = t
	if r.heap0 != nil {
		if _, ok := r.heap0[name]; !ok {
			r.heap0[name] = t
		}
	}
	return t
}

func (r *Run) setHeapArr(st *State, name, elemSort, term string) {
	n := r.fresh(name, "(Array Int "+elemSort+")")
	st.assume(app("=", n, term))
	st.heap[name] = n
}

func (r *Run) ghostVar(st *State, name string) (string, bool) {
	if t, ok := st.ghost[name]; ok {
		return t, true
	}
	d := r.eng.C.DeclBy["ghost:"+name]
	if d == nil {
		return "", false
	}
	srt := d.SX.List[2].String()
	t := r.declare(name+"@0", srt)
	st.ghost[name] = t
	if r.ghost0 != nil {
		if _, ok := r.ghost0[name]; !ok {
			r.ghost0[name] = t
		}
	}
	return t, true
}

func (r *Run) havocGhost(st *State, name string) {
	d := r.eng.C.DeclBy["ghost:"+name]
	if d == nil {
		r.toolErr("modifies unknown ghost %q", name)
		return
	}
	r.ghostVar(st, name) // make sure initial exists for old()
	st.ghost[name] = r.fresh(name, d.SX.List[2].String())
}

// ---- value construction ----

func mkScalar(t types.Type, term string) *Val {
	k := kindOf(t)
	v := &Val{K: k, Ty: t, T: term}
	if k == KPtr {
		v.P = &Ptr{Kind: PHeap, T: term, Root: t.Underlying().(*types.Pointer).Elem()}
	}
	return v
}

func boolVal(term string) *Val { return &Val{K: KBool, Ty: types.Typ[types.Bool], T: term} }
func intVal(term string) *Val  { return &Val{K: KInt, Ty: types.Typ[types.Int], T: term} }
func strVal(term string) *Val  { return &Val{K: KStr, Ty: types.Typ[types.String], T: term} }

func (r *Run) rangeAssume(st *State, t types.Type, term string) {
	if lo, hi, ok := intRange(t); ok {
		st.assume(app("and", app("<=", lo, term), app("<=", term, hi)))
	}
}

const maxLen = "281474976710656" // 2^48: address-space bound assumed for every length

// freshVal creates an unconstrained symbolic value of Go type t (with type-range assumptions).
func (r *Run) freshVal(st *State, t types.Type, hint string) *Val {
	switch kindOf(t) {
	case KBool, KReal:
		return mkScalar(t, r.fresh(hint, sortOfKind(kindOf(t))))
	case KStr:
		s := r.fresh(hint, "String")
		st.assume(app("<=", app("str.len", s), maxLen))
		return mkScalar(t, s)
	case KInt:
		c := r.fresh(hint, "Int")
		r.rangeAssume(st, t, c)
		return mkScalar(t, c)
	case KPtr, KIface, KFunc, KMap, KChan, KOpaque:
		c := r.fresh(hint, "Int")
		st.assume(app("<=", "0", c))
		return mkScalar(t, c)
	case KSlice:
		v := &Val{K: KSlice, Ty: t}
		v.Ref = r.fresh(hint+".ref", "Int")
		v.Off = r.fresh(hint+".off", "Int")
		v.Len = r.fresh(hint+".len", "Int")
		v.Cap = r.fresh(hint+".cap", "Int")
		st.assume(app("and", app("<=", "0", v.Ref), app("<=", "0", v.Off), app("<=", "0", v.Len), app("<=", v.Len, v.Cap), app("<=", v.Cap, maxLen),
			app("=>", app("=", v.Ref, "0"), app("=", v.Cap, "0"))))
		if isByteSlice(t) {
			c := r.fresh(hint+".content", "String")
			st.assume(app("=", app("str.len", c), v.Len))
			st.assume(app("=", c, app("str.substr", app("select", r.heapArr(st, "Hb", "String"), v.Ref), v.Off, v.Len)))
			v.Content = c
			v.ContentVer = st.hbVer
		}
		return v
	case KStruct:
		stt := t.Underlying().(*types.Struct)
		v := &Val{K: KStruct, Ty: t}
		for i := 0; i < stt.NumFields(); i++ {
			v.Elems = append(v.Elems, r.freshVal(st, stt.Field(i).Type(), hint+"."+stt.Field(i).Name()))
		}
		return v
	case KTuple:
		tt := t.(*types.Tuple)
		v := &Val{K: KTuple, Ty: t}
		for i := 0; i < tt.Len(); i++ {
			v.Elems = append(v.Elems, r.freshVal(st, tt.At(i).Type(), fmt.Sprintf("%s.%d", hint, i)))
		}
		return v
	case KArray:
		at := t.Underlying().(*types.Array)
		v := &Val{K: KArray, Ty: t}
		if at.Len() > 64 {
			r.note("unmodelled", "large array type %s", t)
			return v
		}
		for i := int64(0); i < at.Len(); i++ {
			v.Elems = append(v.Elems, r.freshVal(st, at.Elem(), fmt.Sprintf("%s.%d", hint, i)))
		}
		return v
	}
	return &Val{K: KUnit, Ty: t}
}

func isByteSlice(t types.Type) bool {
	s, ok := t.Underlying().(*types.Slice)
	if !ok {
		return false
	}
	b, ok := s.Elem().Underlying().(*types.Basic)
	return ok && b.Kind() == types.Uint8
}

func (r *Run) zeroVal(t types.Type) *Val {
	switch kindOf(t) {
	case KSlice:
		v := &Val{K: KSlice, Ty: t, Ref: "0", Off: "0", Len: "0", Cap: "0"}
		if isByteSlice(t) {
			v.Content = `""`
			v.ContentVer = -1 // nil slice content never changes
		}
		return v
	case KStruct:
		stt := t.Underlying().(*types.Struct)
		v := &Val{K: KStruct, Ty: t}
		for i := 0; i < stt.NumFields(); i++ {
			v.Elems = append(v.Elems, r.zeroVal(stt.Field(i).Type()))
		}
		return v
	case KArray:
		at := t.Underlying().(*types.Array)
		v := &Val{K: KArray, Ty: t}
		if at.Len() <= 64 {
			for i := int64(0); i < at.Len(); i++ {
				v.Elems = append(v.Elems, r.zeroVal(at.Elem()))
			}
		}
		return v
	case KTuple:
		tt := t.(*types.Tuple)
		v := &Val{K: KTuple, Ty: t}
		for i := 0; i < tt.Len(); i++ {
			v.Elems = append(v.Elems, r.zeroVal(tt.At(i).Type()))
		}
		return v
	}
	return mkScalar(t, zeroTerm(t))
}

// termOf returns the scalar SMT term of a value that is stored as one scalar.
func (r *Run) termOf(v *Val) string {
	switch v.K {
	case KPtr:
		if v.P.Kind == PHeap && len(v.P.Path) == 0 {
			return v.P.T
		}
		if v.T != "" {
			return v.T
		}
		// A pointer to a local object escapes into symbolic memory: give it a fresh identity.
		r.note("unmodelled", "pointer to local object %s stored in symbolic memory", v)
		v.T = r.fresh("escaped", "Int")
		return v.T
	case KSlice, KStruct, KTuple, KArray, KUnit:
		r.toolErr("termOf composite value %s of type %v", v, v.Ty)
		return "0"
	}
	if v.T == "" {
		r.toolErr("value without term (kind %d, type %v)", v.K, v.Ty); if os.Getenv("GOVC_TRACE") != "" { debug.PrintStack() }
		return "0"
	}
	return v.T
}

// ---- memory ----

func (r *Run) loadHeapLeaf(st *State, root types.Type, name string, lt types.Type, ref string) *Val {
	if _, ok := lt.Underlying().(*types.Slice); ok {
		base := heapArrayName(root, name)
		v := &Val{K: KSlice, Ty: lt}
		v.Ref = app("select", r.heapArr(st, base+"#ref", "Int"), ref)
		v.Off = app("select", r.heapArr(st, base+"#off", "Int"), ref)
		v.Len = app("select", r.heapArr(st, base+"#len", "Int"), ref)
		v.Cap = app("select", r.heapArr(st, base+"#cap", "Int"), ref)
		st.assume(app("and", app("<=", "0", v.Len), app("<=", v.Len, maxLen), app("<=", "0", v.Off), app("<=", "0", v.Ref)))
		return v
	}
	srt := scalarSort(lt)
	term := app("select", r.heapArr(st, heapArrayName(root, name), srt), ref)
	if _, _, ok := intRange(lt); ok {
		r.rangeAssume(st, lt, term)
	}
	if kindOf(lt) == KStr {
		st.assume(app("<=", app("str.len", term), maxLen))
	}
	return mkScalar(lt, term)
}

func (r *Run) storeHeapLeaf(st *State, root types.Type, name string, lt types.Type, ref string, v *Val) {
	if _, ok := lt.Underlying().(*types.Slice); ok {
		base := heapArrayName(root, name)
		for _, c := range []struct{ s, t string }{{"#ref", v.Ref}, {"#off", v.Off}, {"#len", v.Len}, {"#cap", v.Cap}} {
			a := r.heapArr(st, base+c.s, "Int")
			r.setHeapArr(st, base+c.s, "Int", app("store", a, ref, c.t))
		}
		return
	}
	srt := scalarSort(lt)
	n := heapArrayName(root, name)
	a := r.heapArr(st, n, srt)
	r.setHeapArr(st, n, srt, app("store", a, ref, r.termOf(v)))
}

func (r *Run) loadElemLeaf(st *State, elem types.Type, name string, lt types.Type, ref, idx, fam string) *Val {
	srt := scalarSort(lt)
	if srt == "" {
		r.note("unmodelled", "slice element with nested slice field %s.%s", typeName(elem), name)
		return r.freshVal(st, lt, "elem")
	}
	arr := r.heapArr(st, sliceArrayName(elem, name)+fam, "(Array Int "+srt+")")
	term := app("select", app("select", arr, ref), idx)
	if _, _, ok := intRange(lt); ok {
		r.rangeAssume(st, lt, term)
	}
	return mkScalar(lt, term)
}

func (r *Run) storeElemLeaf(st *State, elem types.Type, name string, lt types.Type, ref, idx, fam string, v *Val) {
	srt := scalarSort(lt)
	if srt == "" {
		r.note("unmodelled", "store to slice element with nested slice field")
		return
	}
	n := sliceArrayName(elem, name) + fam
	arr := r.heapArr(st, n, "(Array Int "+srt+")")
	r.setHeapArr(st, n, "(Array Int "+srt+")", app("store", arr, ref, app("store", app("select", arr, ref), idx, r.termOf(v))))
}

// loadAt loads the value of type t found at (root object, path).
func (r *Run) load(st *State, p *Ptr) *Val {
	t := fieldType(p.Root, p.Path)
	switch p.Kind {
	case PCell:
		v := st.cells[p.Cell.id]
		if v == nil {
			r.toolErr("load from unallocated cell %s", p.Cell.name)
			return r.freshVal(st, t, "bad")
		}
		for _, i := range p.Path {
			if (v.K != KStruct && v.K != KArray) || i >= len(v.Elems) {
				r.toolErr("bad path into cell %s", p.Cell.name)
				return r.freshVal(st, t, "bad")
			}
			v = v.Elems[i]
		}
		return v
	case PHeap, PElem:
		if _, isStruct := t.Underlying().(*types.Struct); isStruct && !isOpaqueNamed(t) {
			stt := t.Underlying().(*types.Struct)
			v := &Val{K: KStruct, Ty: t}
			for i := 0; i < stt.NumFields(); i++ {
				sub := &Ptr{Kind: p.Kind, T: p.T, Idx: p.Idx, Root: p.Root, Fam: p.Fam, Path: append(append([]int{}, p.Path...), i)}
				v.Elems = append(v.Elems, r.load(st, sub))
			}
			return v
		}
		if kindOf(t) == KArray {
			r.note("unmodelled", "array-typed field in symbolic memory")
			return r.freshVal(st, t, "arr")
		}
		name := fieldNames(p.Root, p.Path)
		if p.Kind == PHeap {
			return r.loadHeapLeaf(st, p.Root, name, t, p.T)
		}
		return r.loadElemLeaf(st, p.Root, name, t, p.T, p.Idx, p.Fam)
	}
	return nil
}

func (r *Run) store(st *State, p *Ptr, v *Val) {
	t := fieldType(p.Root, p.Path)
	switch p.Kind {
	case PCell:
		st.cells[p.Cell.id] = replaceAt(st.cells[p.Cell.id], p.Path, v)
	case PHeap, PElem:
		if _, isStruct := t.Underlying().(*types.Struct); isStruct && !isOpaqueNamed(t) {
			stt := t.Underlying().(*types.Struct)
			for i := 0; i < stt.NumFields(); i++ {
				sub := &Ptr{Kind: p.Kind, T: p.T, Idx: p.Idx, Root: p.Root, Fam: p.Fam, Path: append(append([]int{}, p.Path...), i)}
				if v.K == KStruct && i < len(v.Elems) {
					r.store(st, sub, v.Elems[i])
				}
			}
			return
		}
		name := fieldNames(p.Root, p.Path)
		if p.Kind == PHeap {
			r.storeHeapLeaf(st, p.Root, name, t, p.T, v)
		} else {
			r.storeElemLeaf(st, p.Root, name, t, p.T, p.Idx, p.Fam, v)
		}
	}
}

func replaceAt(v *Val, path []int, nv *Val) *Val {
	if len(path) == 0 {
		return nv
	}
	c := *v
	c.Elems = append([]*Val(nil), v.Elems...)
	c.Elems[path[0]] = replaceAt(v.Elems[path[0]], path[1:], nv)
	return &c
}

// content returns the byte content (a String term) of a []byte value.
func (r *Run) content(st *State, v *Val) string {
	if v.Content != "" && (v.ContentVer == st.hbVer || v.ContentVer == -1) {
		return v.Content
	}
	return app("str.substr", app("select", r.heapArr(st, "Hb", "String"), v.Ref), v.Off, v.Len)
}

// writeBytes overwrites the bytes [at, at+len(data)) of the slice's backing array.
func (r *Run) writeBytes(st *State, v *Val, at string, data string) {
	hb := r.heapArr(st, "Hb", "String")
	old := app("select", hb, v.Ref)
	pos := app("+", v.Off, at)
	n := app("str.len", data)
	nw := app("str.++", app("str.substr", old, "0", pos), data, app("str.substr", old, app("+", pos, n), app("-", app("str.len", old), app("+", pos, n))))
	r.setHeapArr(st, "Hb", "String", app("store", hb, v.Ref, nw))
	st.hbVer = r.nextVer()
}

func (r *Run) nextVer() int {
	r.verN++
	return r.verN
}

func sortedKeys(m map[string]bool) []string {
	var ks []string
	for k := range m {
		ks = append(ks, k)
	}
	sort.Strings(ks)
	return ks
}
