package main

// tryReplay runs the real function on the inputs of a solver model where a driver exists.
func tryReplay(eng *Engine, q *Query, model map[string]string) *replayOutcome {
	return nil
}
