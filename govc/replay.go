package main

import (
	"context"
	"encoding/hex"
	"encoding/json"
	"fmt"
	"go/types"
	"os"
	"os/exec"
	"path/filepath"
	"strings"
	"time"

	"golang.org/x/tools/go/ssa"
)

// Counterexample replay: when a solver returns a model for a failed obligation of a function whose
// parameters can be built from plain data (strings, bytes, scalars, structs of those, byte-stream readers
// and writers), the real function is run on the model's inputs through an in-package test injected with
// `go test -overlay` (nothing is written to /repo). The observed outputs are then pinned in the failed query:
// if path condition + observed behaviour + negated clause is still satisfiable, the counterexample is
// CONFIRMED on the real code; for panic-freedom obligations it is confirmed when the real call panics.

type rArg struct {
	name   string
	kind   string // string bool int bytes reader writer struct
	ty     types.Type
	term   string            // scalar / content term
	nilT   string            // bytes: reference term (0 = nil slice)
	ident  string            // reader/writer/struct: identity term
	fields []rField          // struct
	val    string            // concrete Go literal built from the model
	raw    map[string]string // model values by term
}

type rField struct {
	lf   leaf
	term string
}

func replayKind(t types.Type) string {
	tn := typeName(t)
	switch tn {
	case "io.Reader":
		return "reader"
	case "io.Writer":
		return "writer"
	}
	switch kindOf(t) {
	case KStr:
		return "string"
	case KBool:
		return "bool"
	case KInt:
		if isOpaqueNamed(t) {
			return ""
		}
		return "int"
	case KSlice:
		if isByteSlice(t) {
			return "bytes"
		}
	case KPtr:
		et := t.Underlying().(*types.Pointer).Elem()
		if _, ok := et.Underlying().(*types.Struct); ok && !isOpaqueNamed(et) {
			for _, lf := range structLeaves(et) {
				switch kindOf(lf.ty) {
				case KStr, KBool:
				case KInt:
					if isOpaqueNamed(lf.ty) {
						return ""
					}
				default:
					return ""
				}
			}
			return "struct"
		}
	}
	return ""
}

func tryReplay(eng *Engine, q *Query, model map[string]string) *replayOutcome {
	if q.Run == nil || q.Result == nil || q.Result.Status != "sat" {
		return nil
	}
	r := q.Run
	fn := r.fn
	if fn.Pkg == nil || len(fn.FreeVars) > 0 {
		return nil
	}
	if q.Kind != "ensures" && q.Kind != "safety" {
		return &replayOutcome{Note: "no replay driver for obligations of kind " + q.Kind}
	}
	var args []*rArg
	for _, p := range fn.Params {
		k := replayKind(p.Type())
		if k == "" {
			return &replayOutcome{Note: fmt.Sprintf("no replay driver: parameter %s has type %s", p.Name(), p.Type())}
		}
		v := r.vars[p.Name()]
		a := &rArg{name: p.Name(), kind: k, ty: p.Type()}
		switch k {
		case "string", "bool", "int":
			a.term = v.T
		case "bytes":
			a.term, a.nilT = v.Content, v.Ref
		case "reader", "writer":
			a.ident = v.T
			if k == "reader" {
				a.term = app("select", r.ghost0["rin"], v.T)
			}
		case "struct":
			a.ident = v.P.T
			et := p.Type().Underlying().(*types.Pointer).Elem()
			for _, lf := range structLeaves(et) {
				h0, ok := r.heap0[heapArrayName(et, lf.name)]
				t := ""
				if ok {
					t = app("select", h0, v.P.T)
				}
				a.fields = append(a.fields, rField{lf, t})
			}
		}
		args = append(args, a)
	}
	// concrete values of all input terms
	var terms []string
	for _, a := range args {
		for _, t := range []string{a.term, a.nilT} {
			if t != "" {
				terms = append(terms, t)
			}
		}
		for _, f := range a.fields {
			if f.term != "" {
				terms = append(terms, f.term)
			}
		}
	}
	vals, err := getValues(eng, q, terms)
	if err != nil {
		return &replayOutcome{Note: "could not extract input values from the solver: " + err.Error()}
	}
	// Go literals
	var decl, call []string
	pin := []string{}
	for _, a := range args {
		switch a.kind {
		case "string":
			s, ok := vals[a.term].(string)
			if !ok {
				return &replayOutcome{Note: "model value of " + a.name + " is not a string literal"}
			}
			decl = append(decl, fmt.Sprintf("\t%s := unhex(%q)", a.name, hex.EncodeToString([]byte(s))))
			pin = append(pin, app("=", a.term, smtStr(s)))
			call = append(call, a.name)
		case "bool", "int":
			lit := fmt.Sprint(vals[a.term])
			decl = append(decl, fmt.Sprintf("\tvar %s %s = %s", a.name, types.TypeString(a.ty, func(p *types.Package) string { return "" }), lit))
			pin = append(pin, app("=", a.term, smtInt(lit)))
			call = append(call, a.name)
		case "bytes":
			s, _ := vals[a.term].(string)
			if len(s) > 1<<20 {
				return &replayOutcome{Note: "model input too large to replay"}
			}
			if fmt.Sprint(vals[a.nilT]) == "0" {
				decl = append(decl, fmt.Sprintf("\tvar %s []byte", a.name))
			} else {
				decl = append(decl, fmt.Sprintf("\t%s := []byte(unhex(%q))", a.name, hex.EncodeToString([]byte(s))))
			}
			pin = append(pin, app("=", a.term, smtStr(s)))
			call = append(call, a.name)
		case "reader":
			s, _ := vals[a.term].(string)
			decl = append(decl, fmt.Sprintf("\t%s := strings.NewReader(unhex(%q))", a.name, hex.EncodeToString([]byte(s))))
			pin = append(pin, app("=", a.term, smtStr(s)), app("=", app("rterm", a.ident), "0"))
			call = append(call, a.name)
		case "writer":
			decl = append(decl, fmt.Sprintf("\t%s := &bytes.Buffer{}", a.name))
			call = append(call, a.name)
		case "struct":
			et := a.ty.Underlying().(*types.Pointer).Elem()
			var fs []string
			for _, f := range a.fields {
				if f.term == "" || strings.Contains(f.lf.name, ".") {
					continue
				}
				v := fmt.Sprint(vals[f.term])
				if kindOf(f.lf.ty) == KStr {
					fs = append(fs, fmt.Sprintf("%s: unhex(%q)", f.lf.name, hex.EncodeToString([]byte(v))))
					pin = append(pin, app("=", f.term, smtStr(v)))
				} else {
					fs = append(fs, fmt.Sprintf("%s: %s", f.lf.name, v))
					pin = append(pin, app("=", f.term, smtInt(v)))
				}
			}
			decl = append(decl, fmt.Sprintf("\t%s := &%s{%s}", a.name, et.(*types.Named).Obj().Name(), strings.Join(fs, ", ")))
			call = append(call, a.name)
		}
	}
	// the call expression
	sig := fn.Signature
	var callee string
	callArgs := call
	if sig.Recv() != nil {
		callee = call[0] + "." + fn.Name()
		callArgs = call[1:]
	} else {
		callee = fn.Name()
	}
	nres := sig.Results().Len()
	var lhs []string
	for i := 0; i < nres; i++ {
		lhs = append(lhs, fmt.Sprintf("r%d", i))
	}
	var sb strings.Builder
	pkgName := fn.Pkg.Pkg.Name()
	fmt.Fprintf(&sb, "package %s\n\nimport (\n\t\"bytes\"\n\t\"encoding/hex\"\n\t\"encoding/json\"\n\t\"fmt\"\n\t\"strings\"\n\t\"testing\"\n)\n\n", pkgName)
	sb.WriteString("var _ = bytes.NewBuffer\nvar _ = strings.NewReader\n\nfunc unhex(s string) string { b, _ := hex.DecodeString(s); return string(b) }\n\n")
	sb.WriteString("func TestGovcReplay(t *testing.T) {\n\tout := map[string]interface{}{}\n")
	sb.WriteString("\tdefer func() {\n\t\tif r := recover(); r != nil {\n\t\t\tout[\"panic\"] = fmt.Sprint(r)\n\t\t}\n\t\tb, _ := json.Marshal(out)\n\t\tfmt.Printf(\"\\nGOVC-REPLAY %s\\n\", b)\n\t}()\n")
	sb.WriteString(strings.Join(decl, "\n") + "\n")
	if nres > 0 {
		fmt.Fprintf(&sb, "\t%s := %s(%s)\n", strings.Join(lhs, ", "), callee, strings.Join(callArgs, ", "))
	} else {
		fmt.Fprintf(&sb, "\t%s(%s)\n", callee, strings.Join(callArgs, ", "))
	}
	for i := 0; i < nres; i++ {
		t := sig.Results().At(i).Type()
		switch {
		case isErrorType(t):
			fmt.Fprintf(&sb, "\tif r%d != nil {\n\t\tout[\"r%d\"] = \"err:\" + r%d.Error()\n\t} else {\n\t\tout[\"r%d\"] = \"nil\"\n\t}\n", i, i, i, i)
		case kindOf(t) == KStr:
			fmt.Fprintf(&sb, "\tout[\"r%d\"] = hex.EncodeToString([]byte(r%d))\n", i, i)
		case isByteSlice(t):
			fmt.Fprintf(&sb, "\tout[\"r%d\"] = hex.EncodeToString(r%d)\n\tout[\"r%dnil\"] = r%d == nil\n", i, i, i, i)
		case kindOf(t) == KBool || (kindOf(t) == KInt && !isOpaqueNamed(t)):
			fmt.Fprintf(&sb, "\tout[\"r%d\"] = r%d\n", i, i)
		default:
			fmt.Fprintf(&sb, "\t_ = r%d\n", i)
		}
	}
	for _, a := range args {
		switch a.kind {
		case "writer":
			fmt.Fprintf(&sb, "\tout[\"w:%s\"] = hex.EncodeToString(%s.Bytes())\n", a.name, a.name)
		case "struct":
			for _, f := range a.fields {
				if strings.Contains(f.lf.name, ".") {
					continue
				}
				if kindOf(f.lf.ty) == KStr {
					fmt.Fprintf(&sb, "\tout[\"f:%s.%s\"] = hex.EncodeToString([]byte(%s.%s))\n", a.name, f.lf.name, a.name, f.lf.name)
				} else {
					fmt.Fprintf(&sb, "\tout[\"f:%s.%s\"] = %s.%s\n", a.name, f.lf.name, a.name, f.lf.name)
				}
			}
		}
	}
	sb.WriteString("}\n")

	// run it
	tmp, err := os.MkdirTemp("", "govc-replay-")
	if err != nil {
		return &replayOutcome{Note: err.Error()}
	}
	defer os.RemoveAll(tmp)
	pkgDir := filepath.Dir(eng.prog.Fset.Position(fn.Pos()).Filename)
	testFile := filepath.Join(tmp, "replay_test.go")
	os.WriteFile(testFile, []byte(sb.String()), 0o644) //nolint:errcheck
	ov, _ := json.Marshal(map[string]interface{}{"Replace": map[string]string{filepath.Join(pkgDir, "zz_govc_replay_test.go"): testFile}})
	ovFile := filepath.Join(tmp, "overlay.json")
	os.WriteFile(ovFile, ov, 0o644) //nolint:errcheck
	ctx, cancel := context.WithTimeout(context.Background(), 90*time.Second)
	defer cancel()
	cmd := exec.CommandContext(ctx, "go", "test", "-overlay", ovFile, "-vet=off", "-count=1", "-timeout", "60s", "-v", "-run", "^TestGovcReplay$", ".")
	cmd.Dir = pkgDir
	cmd.Env = append(os.Environ(), "GOFLAGS=-mod=mod", "GOPROXY=off", "GOSUMDB=off", "GOTOOLCHAIN=local")
	outB, _ := cmd.CombinedOutput()
	outS := string(outB)
	res := &replayOutcome{Cmd: "cd " + pkgDir + " && go test -overlay <driver> -vet=off -run ^TestGovcReplay$ .   (driver: in-package test calling " + callee + " on the model's inputs)", Output: trunc(outS, 3000)}
	res.Driver = sb.String()
	idx := strings.Index(outS, "GOVC-REPLAY ")
	if idx < 0 {
		res.Note = "replay driver produced no result (build or run failure)"
		return res
	}
	line := outS[idx+len("GOVC-REPLAY "):]
	if nl := strings.IndexByte(line, '\n'); nl >= 0 {
		line = line[:nl]
	}
	obs := map[string]interface{}{}
	if err := json.Unmarshal([]byte(line), &obs); err != nil {
		res.Note = "cannot parse replay output"
		return res
	}
	res.Observed = obs
	if q.Kind == "safety" {
		if p, ok := obs["panic"]; ok {
			res.Confirmed = true
			res.Note = fmt.Sprintf("the real function panics on the model's input: %v", p)
		} else {
			res.Note = "the real function does not panic on the model's input"
		}
		return res
	}
	if _, ok := obs["panic"]; ok {
		res.Note = "the real function panicked instead of returning"
		return res
	}
	// pin observed outputs on this path and ask whether the clause is still violated
	for i := 0; i < nres && i < len(q.Rets); i++ {
		t := sig.Results().At(i).Type()
		rv := q.Rets[i]
		o, ok := obs[fmt.Sprintf("r%d", i)]
		if !ok || rv == nil {
			continue
		}
		switch {
		case isErrorType(t):
			if o == "nil" {
				pin = append(pin, app("=", rv.T, "0"))
			} else {
				pin = append(pin, not(app("=", rv.T, "0")))
			}
		case kindOf(t) == KStr:
			b, _ := hex.DecodeString(fmt.Sprint(o))
			pin = append(pin, app("=", rv.T, smtStr(string(b))))
		case isByteSlice(t):
			b, _ := hex.DecodeString(fmt.Sprint(o))
			pin = append(pin, app("=", r.content(q.Post, rv), smtStr(string(b))))
			if isNil, _ := obs[fmt.Sprintf("r%dnil", i)].(bool); isNil {
				pin = append(pin, app("=", rv.Ref, "0"))
			} else {
				pin = append(pin, not(app("=", rv.Ref, "0")))
			}
		case kindOf(t) == KBool:
			pin = append(pin, app("=", rv.T, fmt.Sprint(o)))
		case kindOf(t) == KInt:
			pin = append(pin, app("=", rv.T, smtInt(fmt.Sprint(o))))
		}
	}
	for _, a := range args {
		switch a.kind {
		case "writer":
			b, _ := hex.DecodeString(fmt.Sprint(obs["w:"+a.name]))
			w0 := r.ghost0["wout"]
			if cur, ok := q.Post.ghost["wout"]; ok && w0 != "" {
				pin = append(pin, app("=", app("select", w0, a.ident), `""`), app("=", app("select", cur, a.ident), smtStr(string(b))))
			}
		case "struct":
			et := a.ty.Underlying().(*types.Pointer).Elem()
			for _, f := range a.fields {
				cur, ok := q.Post.heap[heapArrayName(et, f.lf.name)]
				o, have := obs["f:"+a.name+"."+f.lf.name]
				if !ok || cur == "" || !have {
					continue
				}
				if kindOf(f.lf.ty) == KStr {
					b, _ := hex.DecodeString(fmt.Sprint(o))
					pin = append(pin, app("=", app("select", cur, a.ident), smtStr(string(b))))
				} else {
					pin = append(pin, app("=", app("select", cur, a.ident), smtInt(fmt.Sprint(o))))
				}
			}
		}
	}
	st := confirm(eng, q, pin)
	res.Pinned = pin
	switch st {
	case "sat":
		res.Confirmed = true
		res.Note = "with the inputs and the outputs observed on the real code pinned, the path condition and the negated clause are satisfiable: the clause is false on this real execution"
	case "unsat":
		res.Note = "the real execution on the model's inputs does not follow the model (solver model used uninterpreted-function values the real code does not have)"
	default:
		res.Note = "confirmation query undecided"
	}
	return res
}

func smtInt(s string) string {
	s = strings.TrimSpace(s)
	if s == "true" || s == "false" {
		return s
	}
	if strings.HasPrefix(s, "-") {
		return "(- " + s[1:] + ")"
	}
	return s
}

func solverByName(name string) *solverSpec {
	for i := range solvers {
		if strings.HasPrefix(name, solvers[i].name) {
			return &solvers[i]
		}
	}
	return &solvers[2]
}

// getValues re-runs the solver that produced the model and asks for the values of the given terms.
func getValues(eng *Engine, q *Query, terms []string) (map[string]interface{}, error) {
	out := map[string]interface{}{}
	if len(terms) == 0 {
		return out, nil
	}
	script, _ := q.scriptWith(eng.C, q.PC)
	script = strings.Replace(script, "(check-sat)\n(get-model)\n", "(check-sat)\n(get-value ("+strings.Join(terms, " ")+"))\n", 1)
	file := q.Result.File + ".values.smt2"
	os.WriteFile(file, []byte(script), 0o644) //nolint:errcheck
	st, o := runSolver(context.Background(), *solverByName(q.Result.Solver), file, 20)
	if st != "sat" {
		// any solver that can produce a model will do
		for _, s := range solvers {
			if st, o = runSolver(context.Background(), s, file, 20); st == "sat" {
				break
			}
		}
	}
	if st != "sat" {
		return nil, fmt.Errorf("no solver reproduced the model")
	}
	i := strings.Index(o, "\n")
	forms, err := parseAll("values", o[i+1:], 1)
	if err != nil || len(forms) == 0 {
		return nil, fmt.Errorf("cannot parse get-value answer")
	}
	for k, pair := range forms[0].List {
		if k >= len(terms) || len(pair.List) != 2 {
			continue
		}
		v := pair.List[1]
		switch {
		case v.IsStr:
			out[terms[k]] = v.Atom
		case v.IsAtom():
			out[terms[k]] = v.Atom
		case v.Head() == "-" && len(v.List) == 2:
			out[terms[k]] = "-" + v.List[1].Atom
		default:
			out[terms[k]] = v.String()
		}
	}
	return out, nil
}

func confirm(eng *Engine, q *Query, pin []string) string {
	pc := append(append([]string(nil), q.PC...), pin...)
	script, _ := q.scriptWith(eng.C, pc)
	file := q.Result.File + ".confirm.smt2"
	os.WriteFile(file, []byte(script), 0o644) //nolint:errcheck
	best := "unknown"
	for _, s := range solvers {
		st, _ := runSolver(context.Background(), s, file, 20)
		if st == "sat" {
			return "sat"
		}
		if st == "unsat" {
			best = "unsat"
		}
	}
	return best
}

var _ = ssa.NaiveForm

// replayableFn: every parameter can be built from plain data by the generic driver.
func replayableFn(fn *ssa.Function) bool {
	if fn.Pkg == nil || len(fn.FreeVars) > 0 {
		return false
	}
	for _, p := range fn.Params {
		if replayKind(p.Type()) == "" {
			return false
		}
	}
	return true
}
