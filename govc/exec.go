package main

import (
	"fmt"
	"go/token"
	"go/types"
	"strings"

	"golang.org/x/tools/go/ssa"
)

func (r *Run) execFrom(fr *Frame, st *State, b *ssa.BasicBlock, start int, prev *ssa.BasicBlock) []Outcome {
	if start == 0 {
		r.paths++
		if r.paths > maxPaths {
			r.toolErr("path cap exceeded in %s", r.name)
			return nil
		}
		if !r.enterBlock(fr, st, b, prev) {
			return nil
		}
	}
	for i := start; i < len(b.Instrs); i++ {
		in := b.Instrs[i]
		switch x := in.(type) {
		case *ssa.Phi, *ssa.DebugRef:
			continue
		case *ssa.If:
			c := r.val(fr, st, x.Cond).T
			var outs []Outcome
			if !st.contradicts(c) {
				st1, fr1 := st.clone(), fr.clone()
				st1.assume(c)
				outs = append(outs, r.execFrom(fr1, st1, b.Succs[0], 0, b)...)
			}
			if !st.contradicts(not(c)) {
				st.assume(not(c))
				outs = append(outs, r.execFrom(fr, st, b.Succs[1], 0, b)...)
			}
			return outs
		case *ssa.Jump:
			return r.execFrom(fr, st, b.Succs[0], 0, b)
		case *ssa.Return:
			var rets []*Val
			for _, rv := range x.Results {
				rets = append(rets, r.val(fr, st, rv))
			}
			return []Outcome{{st, rets, fr}}
		case *ssa.Panic:
			r.safety(fr, st, "panic", in, "false")
			return nil
		case *ssa.RunDefers:
			outs := r.runDefers(fr, st)
			if len(outs) == 1 && outs[0].st == st {
				continue
			}
			var res []Outcome
			for k, o := range outs {
				f2 := fr
				if k < len(outs)-1 {
					f2 = fr.clone()
				}
				f2.defers = nil
				res = append(res, r.execFrom(f2, o.st, b, i+1, prev)...)
			}
			return res
		case *ssa.Call:
			var argv []*Val // argument values at the moment of the call, for (callarg "callee" k i)
			if x.Call.IsInvoke() {
				argv = append(argv, r.val(fr, st, x.Call.Value))
			}
			for _, a := range x.Call.Args {
				argv = append(argv, r.val(fr, st, a))
			}
			outs := r.handleCall(fr, st, x, &x.Call)
			for _, o := range outs {
				r.recordCall(o.st, x, &x.Call, o.rets)
				r.recordCallArgs(o.st, x, &x.Call, argv)
				r.ghostEvent(fr, o.st, "call", strings.TrimPrefix(r.eng.calleeName(&x.Call), "dyn:"), "")
			}
			if len(outs) == 1 && outs[0].st == st {
				if len(outs[0].rets) > 0 {
					fr.vals[x] = outs[0].rets[0]
				}
				continue
			}
			var res []Outcome
			for k, o := range outs {
				f2 := fr
				if k < len(outs)-1 {
					f2 = fr.clone()
				}
				if len(o.rets) > 0 {
					f2.vals[x] = o.rets[0]
				}
				res = append(res, r.execFrom(f2, o.st, b, i+1, prev)...)
			}
			return res
		default:
			r.step(fr, st, in)
		}
	}
	return nil
}

func (r *Run) recordCall(st *State, instr ssa.Instruction, cc *ssa.CallCommon, rets []*Val) {
	name := r.eng.calleeName(cc)
	if strings.HasPrefix(name, "dyn:") {
		name = strings.TrimPrefix(name, "dyn:")
	}
	key := fmt.Sprintf("%s#%d", name, r.eng.callOrdinal(instr, r.eng.calleeName(cc)))
	if instr.Parent() != r.fn {
		key = fnName(instr.Parent()) + ":" + key
	}
	if st.calls == nil {
		st.calls = map[string][]*Val{}
	}
	var flat []*Val
	if len(rets) == 1 && rets[0] != nil && rets[0].K == KTuple {
		flat = rets[0].Elems
	} else {
		flat = rets
	}
	st.calls[key] = flat
}

func (r *Run) recordCallArgs(st *State, instr ssa.Instruction, cc *ssa.CallCommon, argv []*Val) {
	name := strings.TrimPrefix(r.eng.calleeName(cc), "dyn:")
	key := fmt.Sprintf("%s#%d", name, r.eng.callOrdinal(instr, r.eng.calleeName(cc)))
	if instr.Parent() != r.fn {
		key = fnName(instr.Parent()) + ":" + key
	}
	st.calls["arg:"+key] = argv
}

func (r *Run) runDefers(fr *Frame, st *State) []Outcome {
	cur := []Outcome{{st: st}}
	for k := len(fr.defers) - 1; k >= 0; k-- {
		d := fr.defers[k]
		var next []Outcome
		for _, o := range cur {
			r.inDefer++
			outs := r.invoke(fr, o.st, d.call, &d.call.Call, d.fnv, d.args)
			r.inDefer--
			next = append(next, outs...)
		}
		cur = next
	}
	fr.defers = nil
	return cur
}

func tupleOf(ty types.Type, elems ...*Val) *Val {
	return &Val{K: KTuple, Ty: ty, Elems: elems}
}

// step executes one straight-line instruction.
func (r *Run) step(fr *Frame, st *State, in ssa.Instruction) {
	switch x := in.(type) {
	case *ssa.Alloc:
		et := x.Type().Underlying().(*types.Pointer).Elem()
		c := r.newCell(fr, x.Comment, et)
		st.cells[c.id] = r.zeroVal(et)
		fr.allocs[x] = c
		fr.cellsBy[x.Comment] = append(fr.cellsBy[x.Comment], c)
		fr.vals[x] = &Val{K: KPtr, Ty: x.Type(), P: &Ptr{Kind: PCell, Cell: c, Root: et}}
	case *ssa.Store:
		p := r.val(fr, st, x.Addr)
		v := r.val(fr, st, x.Val)
		if p.K != KPtr {
			r.toolErr("store through non-pointer")
			return
		}
		if p.P.Kind == PCell && p.P.Cell.id < 0 {
			r.note("unmodelled", "store to package-level variable %s ignored (globals are treated as constants)", p.P.Cell.name)
			return
		}
		r.store(st, p.P, v)
		if p.P.Kind == PElem && isByteType(p.P.Root) {
			st.hbVer = r.nextVer()
		}
	case *ssa.UnOp:
		fr.vals[x] = r.unop(fr, st, x)
	case *ssa.BinOp:
		fr.vals[x] = r.binop(fr, st, x)
	case *ssa.FieldAddr:
		p := r.val(fr, st, x.X)
		if p.K != KPtr {
			r.toolErr("FieldAddr on non-pointer in %s", fnName(fr.fn))
			fr.vals[x] = r.freshVal(st, x.Type(), "bad")
			return
		}
		r.nilCheck(fr, st, in, p)
		np := &Ptr{Kind: p.P.Kind, T: p.P.T, Idx: p.P.Idx, Cell: p.P.Cell, Root: p.P.Root, Fam: p.P.Fam, Path: append(append([]int{}, p.P.Path...), x.Field)}
		fr.vals[x] = &Val{K: KPtr, Ty: x.Type(), P: np}
	case *ssa.Field:
		s := r.val(fr, st, x.X)
		if s.K == KStruct && x.Field < len(s.Elems) {
			fr.vals[x] = s.Elems[x.Field]
		} else {
			r.note("unmodelled", "field of opaque struct %v", x.X.Type())
			fr.vals[x] = r.freshVal(st, x.Type(), "field")
		}
	case *ssa.IndexAddr:
		fr.vals[x] = r.indexAddr(fr, st, x)
	case *ssa.Index:
		fr.vals[x] = r.index(fr, st, x)
	case *ssa.Slice:
		fr.vals[x] = r.slice(fr, st, x)
	case *ssa.Lookup:
		fr.vals[x] = r.lookup(fr, st, x)
	case *ssa.MapUpdate:
		r.mapUpdate(fr, st, x)
	case *ssa.MakeMap:
		r.negRef++
		ref := itoa(int64(-r.negRef))
		mt := x.Type().Underlying().(*types.Map)
		r.mapInit(st, mt, ref)
		fr.vals[x] = mkScalar(x.Type(), ref)
	case *ssa.MakeChan:
		r.negRef++
		fr.vals[x] = mkScalar(x.Type(), itoa(int64(-r.negRef)))
	case *ssa.MakeSlice:
		fr.vals[x] = r.makeSlice(fr, st, x)
	case *ssa.MakeInterface:
		v := r.val(fr, st, x.X)
		iv := &Val{K: KIface, Ty: x.Type(), Box: v}
		if v.K == KPtr && v.P.Kind == PHeap && len(v.P.Path) == 0 {
			iv.T = v.P.T
		} else if v.K == KIface {
			iv.T = v.T
		} else {
			iv.T = r.fresh("iface", "Int")
			st.assume(app("<", "0", iv.T))
		}
		st.assume(app("=", app("dyntype", iv.T), r.eng.typeID(x.X.Type())))
		st.uses["dyntype"] = true
		if v.K == KStr {
			st.assume(app("=", app("box_string", iv.T), v.T))
		}
		if v.K == KStruct {
			// the fields of a boxed struct value are visible to contracts as (|box T.f| iface)
			for _, lf := range structLeaves(v.Ty) {
				srt := scalarSort(lf.ty)
				if srt == "" {
					continue
				}
				name := "box " + typeName(v.Ty) + "." + lf.name
				r.declareFun(name, "(Int) "+srt)
				st.assume(app("=", app(sym(name), iv.T), r.termOf(leafVal(v, lf.path))))
			}
		}
		fr.vals[x] = iv
	case *ssa.ChangeInterface:
		v := *r.val(fr, st, x.X)
		v.Ty = x.Type()
		fr.vals[x] = &v
	case *ssa.ChangeType:
		v := *r.val(fr, st, x.X)
		v.Ty = x.Type()
		fr.vals[x] = &v
	case *ssa.Convert:
		fr.vals[x] = r.convert(fr, st, x)
	case *ssa.TypeAssert:
		fr.vals[x] = r.typeAssert(fr, st, x)
	case *ssa.Extract:
		t := r.val(fr, st, x.Tuple)
		if t.K == KTuple && x.Index < len(t.Elems) {
			fr.vals[x] = t.Elems[x.Index]
		} else {
			r.toolErr("extract from non-tuple in %s", fnName(fr.fn))
			fr.vals[x] = r.freshVal(st, x.Type(), "extract")
		}
	case *ssa.MakeClosure:
		fn := x.Fn.(*ssa.Function)
		var bind []*Val
		for _, b := range x.Bindings {
			bind = append(bind, r.val(fr, st, b))
		}
		fr.vals[x] = &Val{K: KFunc, Ty: x.Type(), Fn: fn, Bind: bind, T: r.eng.fnID(fnName(fn))}
	case *ssa.Defer:
		var args []*Val
		for _, a := range x.Call.Args {
			args = append(args, r.val(fr, st, a))
		}
		var fnv *Val
		if _, isB := x.Call.Value.(*ssa.Builtin); !isB {
			fnv = r.val(fr, st, x.Call.Value)
		}
		fr.defers = append(fr.defers, &deferred{call: x, args: args, fnv: fnv})
	case *ssa.Go:
		r.note("assumption", "goroutine started at %s:%s runs independently; its effects are not part of the caller's verification", fnName(fr.fn), r.eng.calleeName(&x.Call))
		r.goEvent(fr, st, x)
	case *ssa.Send:
		r.sendCheck(fr, st, x, x.Chan, x.X, "true")
	case *ssa.Select:
		fr.vals[x] = r.selectInstr(fr, st, x)
	case *ssa.Range:
		fr.vals[x] = &Val{K: KOpaque, Ty: x.Type(), T: "0"}
	case *ssa.Next:
		tt := x.Type().(*types.Tuple)
		ok := boolVal(r.fresh("next.ok", "Bool"))
		k := r.freshVal(st, tt.At(1).Type(), "next.key")
		v := r.freshVal(st, tt.At(2).Type(), "next.val")
		r.note("unmodelled", "range over map/string in %s: iteration order and contents are unconstrained", fnName(fr.fn))
		fr.vals[x] = tupleOf(x.Type(), ok, k, v)
	default:
		r.toolErr("unsupported instruction %T in %s", in, fnName(fr.fn))
	}
}

func isByteType(t types.Type) bool {
	b, ok := t.Underlying().(*types.Basic)
	return ok && b.Kind() == types.Uint8
}

func (r *Run) nilCheck(fr *Frame, st *State, in ssa.Instruction, p *Val) {
	if p.K == KPtr && p.P.Kind == PHeap && len(p.P.Path) == 0 {
		if isLit(p.P.T) && p.P.T != "0" {
			return
		}
		r.safety(fr, st, "nil", in, not(app("=", p.P.T, "0")))
	}
}

func isLit(t string) bool {
	if t == "" {
		return false
	}
	if strings.HasPrefix(t, "(- ") {
		return true
	}
	for _, c := range t {
		if c < '0' || c > '9' {
			return false
		}
	}
	return true
}

func (r *Run) unop(fr *Frame, st *State, x *ssa.UnOp) *Val {
	v := r.val(fr, st, x.X)
	switch x.Op {
	case token.MUL:
		if v.K != KPtr {
			r.toolErr("load through non-pointer in %s", fnName(fr.fn))
			return r.freshVal(st, x.Type(), "bad")
		}
		r.nilCheck(fr, st, x, v)
		lv := r.load(st, v.P)
		return lv
	case token.NOT:
		return boolVal(not(v.T))
	case token.SUB:
		if v.K == KReal {
			return mkScalar(x.Type(), app("-", v.T))
		}
		return r.wrapInt(fr, st, x, x.Type(), app("-", v.T))
	case token.ARROW:
		et := x.X.Type().Underlying().(*types.Chan).Elem()
		rv := r.freshVal(st, et, "recv")
		r.recvEvent(fr, st, x, v, rv)
		if x.CommaOk {
			return tupleOf(x.Type(), rv, boolVal(r.fresh("recv.ok", "Bool")))
		}
		return rv
	case token.XOR:
		r.note("unmodelled", "bitwise complement")
		return r.freshVal(st, x.Type(), "xor")
	}
	r.toolErr("unsupported unary op %v", x.Op)
	return r.freshVal(st, x.Type(), "unop")
}

// wrapInt applies Go's wrap-around semantics of integer type t to a mathematical term, emitting a
// no-overflow obligation when the function is under contract with (overflow) checks on.
func (r *Run) wrapInt(fr *Frame, st *State, in ssa.Instruction, t types.Type, term string) *Val {
	lo, hi, ok := intRange(t)
	if !ok {
		return mkScalar(t, term)
	}
	c := r.fresh("ar", "Int")
	st.assume(app("=", c, term))
	inRange := app("and", app("<=", lo, c), app("<=", c, hi))
	if ct := r.contractFor(fr.fn); ct == nil || !ct.Wraps {
		// mathematical integers plus a proved absence of overflow
		r.safety(fr, st, "overflow", in, inRange)
		return mkScalar(t, c)
	}
	// wrap-around semantics requested by the contract: (wraps)
	mod, signed, _ := intModulus(t)
	w := r.fresh("wr", "Int")
	if signed {
		half := hi // 2^(n-1)-1
		st.assume(app("=", w, app("ite", inRange, c, app("-", app("mod", app("+", c, half, "1"), mod), app("+", half, "1")))))
	} else {
		st.assume(app("=", w, app("ite", inRange, c, app("mod", c, mod))))
	}
	return mkScalar(t, w)
}

func (r *Run) binop(fr *Frame, st *State, x *ssa.BinOp) *Val {
	a := r.val(fr, st, x.X)
	b := r.val(fr, st, x.Y)
	k := a.K
	cmp := func(op string) *Val { return boolVal(app(op, a.T, b.T)) }
	switch x.Op {
	case token.EQL, token.NEQ:
		var eq string
		switch k {
		case KSlice:
			// only comparison with nil is legal
			other := a
			if a.Ref == "0" {
				other = b
			}
			eq = app("=", other.Ref, "0")
		case KStruct, KArray:
			var parts []string
			for i := range a.Elems {
				if i < len(b.Elems) && a.Elems[i].T != "" && b.Elems[i].T != "" {
					parts = append(parts, app("=", a.Elems[i].T, b.Elems[i].T))
				}
			}
			eq = and(parts...)
		case KPtr:
			eq = r.ptrEq(a, b)
		case KFunc:
			other := a
			if a.T == "0" {
				other = b
			}
			if other.Fn != nil {
				eq = "false"
			} else {
				eq = app("=", other.T, "0")
			}
		default:
			eq = app("=", r.termOf(a), r.termOf(b))
		}
		if x.Op == token.NEQ {
			return boolVal(not(eq))
		}
		return boolVal(eq)
	case token.LSS:
		if k == KStr {
			return cmp("str.<")
		}
		return cmp("<")
	case token.LEQ:
		if k == KStr {
			return cmp("str.<=")
		}
		return cmp("<=")
	case token.GTR:
		if k == KStr {
			return boolVal(app("str.<", b.T, a.T))
		}
		return cmp(">")
	case token.GEQ:
		if k == KStr {
			return boolVal(app("str.<=", b.T, a.T))
		}
		return cmp(">=")
	case token.ADD:
		if k == KStr {
			return strVal(app("str.++", a.T, b.T))
		}
		if k == KReal {
			return mkScalar(x.Type(), app("+", a.T, b.T))
		}
		return r.wrapInt(fr, st, x, x.Type(), app("+", a.T, b.T))
	case token.SUB:
		if k == KReal {
			return mkScalar(x.Type(), app("-", a.T, b.T))
		}
		return r.wrapInt(fr, st, x, x.Type(), app("-", a.T, b.T))
	case token.MUL:
		if k == KReal {
			return mkScalar(x.Type(), app("*", a.T, b.T))
		}
		return r.wrapInt(fr, st, x, x.Type(), app("*", a.T, b.T))
	case token.QUO:
		if k == KReal {
			return mkScalar(x.Type(), app("/", a.T, b.T))
		}
		r.safety(fr, st, "div", x, not(app("=", b.T, "0")))
		// Go truncates toward zero
		q := app("ite", app(">=", a.T, "0"), app("div", a.T, b.T), app("-", app("div", app("-", a.T), b.T)))
		return mkScalar(x.Type(), q)
	case token.REM:
		r.safety(fr, st, "div", x, not(app("=", b.T, "0")))
		q := app("ite", app(">=", a.T, "0"), app("mod", a.T, b.T), app("-", app("mod", app("-", a.T), b.T)))
		return mkScalar(x.Type(), q)
	case token.AND, token.OR, token.AND_NOT, token.XOR:
		return r.bitop(fr, st, x, a, b)
	case token.SHL:
		// x << c  ==  x * 2^c (wrapped)
		return r.wrapInt(fr, st, x, x.Type(), app("*", a.T, app("pow2", b.T)))
	case token.SHR:
		return mkScalar(x.Type(), app("div", a.T, app("pow2", b.T)))
	}
	r.toolErr("unsupported binary op %v", x.Op)
	return r.freshVal(st, x.Type(), "binop")
}

func (r *Run) ptrEq(a, b *Val) string {
	if a.P.Kind == PHeap && b.P.Kind == PHeap && len(a.P.Path) == 0 && len(b.P.Path) == 0 {
		return app("=", a.P.T, b.P.T)
	}
	if a.P.Kind == PCell && b.P.Kind == PCell {
		if a.P.Cell == b.P.Cell && fmt.Sprint(a.P.Path) == fmt.Sprint(b.P.Path) {
			return "true"
		}
		return "false"
	}
	// pointer to a local object vs symbolic/nil pointer
	return "false"
}

// bitop models & | &^ with a constant mask of the form 2^k-1 / single-bit tests exactly via div/mod;
// anything else is over-approximated.
func (r *Run) bitop(fr *Frame, st *State, x *ssa.BinOp, a, b *Val) *Val {
	if x.Op == token.AND {
		for _, pair := range [][2]*Val{{a, b}, {b, a}} {
			if m, ok := litInt(pair[1].T); ok && m >= 0 {
				return mkScalar(x.Type(), bitAndConst(pair[0].T, uint64(m)))
			}
		}
	}
	if x.Op == token.OR {
		// flags: a|b where both sides are literals
		ma, oka := litInt(a.T)
		mb, okb := litInt(b.T)
		if oka && okb {
			return mkScalar(x.Type(), fmt.Sprint(ma|mb))
		}
		// a | c with constant c: a - (a&c) + c
		for _, pair := range [][2]*Val{{a, b}, {b, a}} {
			if m, ok := litInt(pair[1].T); ok && m >= 0 {
				return mkScalar(x.Type(), app("+", app("-", pair[0].T, bitAndConst(pair[0].T, uint64(m))), fmt.Sprint(m)))
			}
		}
	}
	r.note("unmodelled", "bit operation %v with non-constant operands in %s", x.Op, fnName(fr.fn))
	return r.freshVal(st, x.Type(), "bitop")
}

func litInt(t string) (int64, bool) {
	var n int64
	if _, err := fmt.Sscanf(t, "%d", &n); err == nil && fmt.Sprint(n) == t {
		return n, true
	}
	return 0, false
}

// bitAndConst returns x & m for a non-negative x as div/mod arithmetic over the set bits' runs.
func bitAndConst(x string, m uint64) string {
	if m == 0 {
		return "0"
	}
	var parts []string
	i := 0
	for i < 64 {
		if m&(1<<uint(i)) == 0 {
			i++
			continue
		}
		j := i
		for j < 64 && m&(1<<uint(j)) != 0 {
			j++
		}
		// bits [i,j): ((x div 2^i) mod 2^(j-i)) * 2^i
		lo := new64(uint(i))
		width := new64(uint(j - i))
		parts = append(parts, app("*", app("mod", app("div", x, lo), width), lo))
		i = j
	}
	if len(parts) == 1 {
		return parts[0]
	}
	return app("+", parts...)
}

func new64(sh uint) string {
	if sh >= 64 {
		return "18446744073709551616"
	}
	return fmt.Sprint(uint64(1) << sh)
}

func (r *Run) indexAddr(fr *Frame, st *State, x *ssa.IndexAddr) *Val {
	base := r.val(fr, st, x.X)
	idx := r.val(fr, st, x.Index)
	switch base.K {
	case KSlice:
		if base.FromCell != nil {
			if n, ok := litInt(idx.T); ok {
				return &Val{K: KPtr, Ty: x.Type(), P: &Ptr{Kind: PCell, Cell: base.FromCell, Root: base.FromCell.ty, Path: []int{int(n)}}}
			}
			r.toolErr("symbolic index into local array")
		}
		r.safety(fr, st, "index", x, app("and", app("<=", "0", idx.T), app("<", idx.T, base.Len)))
		et := base.Ty.Underlying().(*types.Slice).Elem()
		return &Val{K: KPtr, Ty: x.Type(), P: &Ptr{Kind: PElem, T: base.Ref, Idx: simplifyAdd(base.Off, idx.T), Root: et, Fam: base.Fam}}
	case KPtr:
		// pointer to array
		if base.P.Kind == PCell {
			if n, ok := litInt(idx.T); ok {
				return &Val{K: KPtr, Ty: x.Type(), P: &Ptr{Kind: PCell, Cell: base.P.Cell, Root: base.P.Root, Path: append(append([]int{}, base.P.Path...), int(n))}}
			}
		}
	}
	r.note("unmodelled", "index address of %v in %s", x.X.Type(), fnName(fr.fn))
	// return pointer to a fresh cell
	et := x.Type().Underlying().(*types.Pointer).Elem()
	c := r.newCell(fr, "idx", et)
	st.cells[c.id] = r.freshVal(st, et, "idx")
	return &Val{K: KPtr, Ty: x.Type(), P: &Ptr{Kind: PCell, Cell: c, Root: et}}
}

func (r *Run) index(fr *Frame, st *State, x *ssa.Index) *Val {
	base := r.val(fr, st, x.X)
	idx := r.val(fr, st, x.Index)
	if base.K == KStr {
		r.safety(fr, st, "index", x, app("and", app("<=", "0", idx.T), app("<", idx.T, app("str.len", base.T))))
		return mkScalar(x.Type(), app("str.to_code", app("str.at", base.T, idx.T)))
	}
	if base.K == KArray {
		if n, ok := litInt(idx.T); ok && int(n) < len(base.Elems) {
			return base.Elems[n]
		}
	}
	r.note("unmodelled", "index of %v", x.X.Type())
	return r.freshVal(st, x.Type(), "index")
}

func (r *Run) slice(fr *Frame, st *State, x *ssa.Slice) *Val {
	base := r.val(fr, st, x.X)
	var lo, hi, max string
	if x.Low != nil {
		lo = r.val(fr, st, x.Low).T
	} else {
		lo = "0"
	}
	if x.High != nil {
		hi = r.val(fr, st, x.High).T
	}
	if x.Max != nil {
		max = r.val(fr, st, x.Max).T
	}
	switch base.K {
	case KStr:
		if hi == "" {
			hi = app("str.len", base.T)
		}
		r.safety(fr, st, "slice", x, app("and", app("<=", "0", lo), app("<=", lo, hi), app("<=", hi, app("str.len", base.T))))
		return strVal(app("str.substr", base.T, lo, app("-", hi, lo)))
	case KSlice:
		if hi == "" {
			hi = base.Len
		}
		bound := base.Cap
		if max != "" {
			r.safety(fr, st, "slice", x, app("and", app("<=", "0", lo), app("<=", lo, hi), app("<=", hi, max), app("<=", max, base.Cap)))
			bound = max
		} else {
			r.safety(fr, st, "slice", x, app("and", app("<=", "0", lo), app("<=", lo, hi), app("<=", hi, base.Cap)))
		}
		nv := &Val{K: KSlice, Ty: x.Type(), Ref: base.Ref, Off: simplifyAdd(base.Off, lo), Len: simplifySub(hi, lo), Cap: simplifySub(bound, lo), FromCell: base.FromCell, Fam: base.Fam}
		if isByteSlice(base.Ty) && base.Content != "" && (base.ContentVer == st.hbVer || base.ContentVer == -1) {
			// valid while hi <= len(base); otherwise the cache is dropped
			c := r.fresh("sub", "String")
			if hi == base.Len {
				st.assume(app("=", c, app("str.substr", base.Content, lo, nv.Len)))
			} else {
				st.assume(app("=>", app("<=", hi, base.Len), app("=", c, app("str.substr", base.Content, lo, nv.Len))))
				st.assume(app("=>", app(">", hi, base.Len), app("=", c, app("str.substr", app("select", r.heapArr(st, "Hb", "String"), base.Ref), nv.Off, nv.Len))))
			}
			st.assume(app("=", app("str.len", c), nv.Len))
			nv.Content = c
			nv.ContentVer = st.hbVer
		}
		return nv
	case KPtr:
		// slice of *array held in a cell (varargs and small buffers)
		if base.P.Kind == PCell {
			arr := r.load(st, base.P)
			if arr.K == KArray {
				n := fmt.Sprint(len(arr.Elems))
				et := x.Type().Underlying().(*types.Slice).Elem()
				if kindOf(et) == KIface {
					// argument lists of variadic calls stay on the Go side (fmt.Sprintf expansion needs the boxed values)
					return &Val{K: KSlice, Ty: x.Type(), Ref: "0", Off: "0", Len: n, Cap: n, FromCell: base.P.Cell}
				}
				// materialise the array in symbolic memory; from here on it is only reached through slices
				r.negRef++
				ref := itoa(int64(-r.negRef))
				if hi == "" {
					hi = n
				}
				nv := &Val{K: KSlice, Ty: x.Type(), Ref: ref, Off: lo, Len: simplifySub(hi, lo), Cap: simplifySub(n, lo)}
				if base.P.Cell.name == "varargs" {
					nv.Fam = "#va" // argument lists of variadic calls never alias program slices
				}
				if isByteSlice(x.Type()) {
					allZero := true
					var parts []string
					for _, e := range arr.Elems {
						if e.T != "0" {
							allZero = false
						}
						parts = append(parts, app("str.from_code", e.T))
					}
					var c string
					if allZero {
						c = app("zeros", n)
						st.uses["zeros"] = true
					} else if len(parts) == 1 {
						c = parts[0]
					} else {
						c = app("str.++", parts...)
					}
					hb := r.heapArr(st, "Hb", "String")
					r.setHeapArr(st, "Hb", "String", app("store", hb, ref, c))
					st.hbVer = r.nextVer()
					if lo == "0" && hi == n {
						nv.Content = c
						nv.ContentVer = st.hbVer
					}
					return nv
				}
				for _, lf := range structLeaves(et) {
					srt := scalarSort(lf.ty)
					if srt == "" {
						continue
					}
					name := sliceArrayName(et, lf.name) + nv.Fam
					a := r.heapArr(st, name, "(Array Int "+srt+")")
					cur := app("(as const (Array Int "+srt+"))", zeroTerm(lf.ty))
					for i, e := range arr.Elems {
						lv := e
						if len(lf.path) > 0 {
							lv = leafVal(e, lf.path)
						}
						t := r.termOf(lv)
						if t != zeroTerm(lf.ty) {
							cur = app("store", cur, fmt.Sprint(i), t)
						}
					}
					r.setHeapArr(st, name, "(Array Int "+srt+")", app("store", a, ref, cur))
				}
				return nv
			}
		}
	}
	r.note("unmodelled", "slice of %v in %s", x.X.Type(), fnName(fr.fn))
	return r.freshVal(st, x.Type(), "slice")
}

func simplifyAdd(a, b string) string {
	if a == "0" {
		return b
	}
	if b == "0" {
		return a
	}
	x, ok1 := litInt(a)
	y, ok2 := litInt(b)
	if ok1 && ok2 {
		return fmt.Sprint(x + y)
	}
	return app("+", a, b)
}

func simplifySub(a, b string) string {
	if b == "0" {
		return a
	}
	x, ok1 := litInt(a)
	y, ok2 := litInt(b)
	if ok1 && ok2 && x >= y {
		return fmt.Sprint(x - y)
	}
	return app("-", a, b)
}

func (r *Run) makeSlice(fr *Frame, st *State, x *ssa.MakeSlice) *Val {
	ln := r.val(fr, st, x.Len).T
	cp := r.val(fr, st, x.Cap).T
	r.safety(fr, st, "makeslice", x, app("and", app("<=", "0", ln), app("<=", ln, cp)))
	r.negRef++
	ref := itoa(int64(-r.negRef))
	v := &Val{K: KSlice, Ty: x.Type(), Ref: ref, Off: "0", Len: ln, Cap: cp}
	et := x.Type().Underlying().(*types.Slice).Elem()
	if isByteSlice(x.Type()) {
		hb := r.heapArr(st, "Hb", "String")
		z := app("zeros", cp)
		st.uses["zeros"] = true
		r.setHeapArr(st, "Hb", "String", app("store", hb, ref, z))
		st.hbVer = r.nextVer()
		if ln == cp {
			v.Content = z
			v.ContentVer = st.hbVer
		}
		return v
	}
	for _, lf := range structLeaves(et) {
		srt := scalarSort(lf.ty)
		if srt == "" {
			continue
		}
		n := sliceArrayName(et, lf.name)
		arr := r.heapArr(st, n, "(Array Int "+srt+")")
		r.setHeapArr(st, n, "(Array Int "+srt+")", app("store", arr, ref, app("(as const (Array Int "+srt+"))", zeroTerm(lf.ty))))
	}
	return v
}

// ---- maps ----

func mapArrNames(mt *types.Map) (string, string) {
	base := "M " + typeName(mt.Key()) + "->" + typeName(mt.Elem())
	return base + " in", base + " len"
}

func (r *Run) mapInit(st *State, mt *types.Map, ref string) {
	ks := scalarSort(mt.Key())
	if ks == "" {
		r.note("unmodelled", "map with composite key")
		return
	}
	inN, lenN := mapArrNames(mt)
	in := r.heapArr(st, inN, "(Array "+ks+" Bool)")
	r.setHeapArr(st, inN, "(Array "+ks+" Bool)", app("store", in, ref, app("(as const (Array "+ks+" Bool))", "false")))
	ln := r.heapArr(st, lenN, "Int")
	r.setHeapArr(st, lenN, "Int", app("store", ln, ref, "0"))
}

func mapValArr(mt *types.Map, leafName string) string {
	n := "M " + typeName(mt.Key()) + "->" + typeName(mt.Elem()) + " val"
	if leafName != "" {
		n += "." + leafName
	}
	return n
}

func (r *Run) mapLoad(st *State, mt *types.Map, ref, key string) (*Val, string) {
	ks := scalarSort(mt.Key())
	inN, _ := mapArrNames(mt)
	in := app("select", app("select", r.heapArr(st, inN, "(Array "+ks+" Bool)"), ref), key)
	et := mt.Elem()
	build := func(lt types.Type, name string) *Val {
		srt := scalarSort(lt)
		if srt == "" {
			return r.freshVal(st, lt, "mapval")
		}
		arr := r.heapArr(st, mapValArr(mt, name), "(Array "+ks+" "+srt+")")
		return mkScalar(lt, app("ite", in, app("select", app("select", arr, ref), key), zeroTerm(lt)))
	}
	if _, isStruct := et.Underlying().(*types.Struct); isStruct && !isOpaqueNamed(et) {
		return r.buildStruct(et, nil, "", func(lf leaf) *Val { return build(lf.ty, lf.name) }), in
	}
	return build(et, ""), in
}

// buildStruct assembles a struct value from its leaves.
func (r *Run) buildStruct(t types.Type, path []int, name string, mk func(leaf) *Val) *Val {
	stt := t.Underlying().(*types.Struct)
	v := &Val{K: KStruct, Ty: t}
	for i := 0; i < stt.NumFields(); i++ {
		f := stt.Field(i)
		n := f.Name()
		if name != "" {
			n = name + "." + n
		}
		p := append(append([]int{}, path...), i)
		if _, isStruct := f.Type().Underlying().(*types.Struct); isStruct && !isOpaqueNamed(f.Type()) {
			v.Elems = append(v.Elems, r.buildStruct(f.Type(), p, n, mk))
		} else {
			_, isSlice := f.Type().Underlying().(*types.Slice)
			v.Elems = append(v.Elems, mk(leaf{path: p, name: n, ty: f.Type(), slice: isSlice}))
		}
	}
	return v
}

func leafVal(v *Val, path []int) *Val {
	for _, i := range path {
		v = v.Elems[i]
	}
	return v
}

func (r *Run) lookup(fr *Frame, st *State, x *ssa.Lookup) *Val {
	m := r.val(fr, st, x.X)
	k := r.val(fr, st, x.Index)
	if m.K == KStr {
		r.safety(fr, st, "index", x, app("and", app("<=", "0", k.T), app("<", k.T, app("str.len", m.T))))
		return mkScalar(x.Type(), app("str.to_code", app("str.at", m.T, k.T)))
	}
	mt := x.X.Type().Underlying().(*types.Map)
	if scalarSort(mt.Key()) == "" {
		r.note("unmodelled", "map lookup with composite key")
		return r.freshVal(st, x.Type(), "lookup")
	}
	v, in := r.mapLoad(st, mt, r.termOf(m), r.termOf(k))
	if x.CommaOk {
		return tupleOf(x.Type(), v, boolVal(in))
	}
	return v
}

func (r *Run) mapUpdate(fr *Frame, st *State, x *ssa.MapUpdate) {
	m := r.val(fr, st, x.Map)
	k := r.val(fr, st, x.Key)
	v := r.val(fr, st, x.Value)
	mt := x.Map.Type().Underlying().(*types.Map)
	ks := scalarSort(mt.Key())
	if ks == "" {
		r.note("unmodelled", "map update with composite key")
		return
	}
	ref, key := r.termOf(m), r.termOf(k)
	r.safety(fr, st, "nilmap", x, not(app("=", ref, "0")))
	inN, lenN := mapArrNames(mt)
	inArr := r.heapArr(st, inN, "(Array "+ks+" Bool)")
	was := app("select", app("select", inArr, ref), key)
	lnArr := r.heapArr(st, lenN, "Int")
	r.setHeapArr(st, lenN, "Int", app("store", lnArr, ref, app("ite", was, app("select", lnArr, ref), app("+", app("select", lnArr, ref), "1"))))
	r.setHeapArr(st, inN, "(Array "+ks+" Bool)", app("store", inArr, ref, app("store", app("select", inArr, ref), key, "true")))
	et := mt.Elem()
	put := func(lt types.Type, name string, lv *Val) {
		srt := scalarSort(lt)
		if srt == "" {
			return
		}
		n := mapValArr(mt, name)
		arr := r.heapArr(st, n, "(Array "+ks+" "+srt+")")
		r.setHeapArr(st, n, "(Array "+ks+" "+srt+")", app("store", arr, ref, app("store", app("select", arr, ref), key, r.termOf(lv))))
	}
	if _, isStruct := et.Underlying().(*types.Struct); isStruct && !isOpaqueNamed(et) {
		for _, lf := range structLeaves(et) {
			put(lf.ty, lf.name, leafVal(v, lf.path))
		}
		return
	}
	put(et, "", v)
}

// ---- conversions and type assertions ----

func (r *Run) convert(fr *Frame, st *State, x *ssa.Convert) *Val {
	v := r.val(fr, st, x.X)
	from, to := x.X.Type(), x.Type()
	fk, tk := kindOf(from), kindOf(to)
	switch {
	case fk == KInt && tk == KInt:
		lo, hi, ok := intRange(to)
		if !ok {
			return mkScalar(to, v.T)
		}
		flo, fhi, fok := intRange(from)
		if fok && rangeWithin(flo, fhi, lo, hi) {
			return mkScalar(to, v.T)
		}
		mod, signed, _ := intModulus(to)
		inRange := app("and", app("<=", lo, v.T), app("<=", v.T, hi))
		w := r.fresh("conv", "Int")
		if signed {
			st.assume(app("=", w, app("ite", inRange, v.T, app("-", app("mod", app("+", v.T, hi, "1"), mod), app("+", hi, "1")))))
		} else {
			st.assume(app("=", w, app("ite", inRange, v.T, app("mod", v.T, mod))))
		}
		return mkScalar(to, w)
	case fk == KInt && tk == KReal:
		return mkScalar(to, app("to_real", v.T))
	case fk == KReal && tk == KReal:
		return mkScalar(to, v.T)
	case fk == KReal && tk == KInt:
		return mkScalar(to, app("to_int", v.T))
	case fk == KStr && tk == KSlice && isByteSlice(to):
		r.negRef++
		ref := itoa(int64(-r.negRef))
		hb := r.heapArr(st, "Hb", "String")
		r.setHeapArr(st, "Hb", "String", app("store", hb, ref, v.T))
		st.hbVer = r.nextVer()
		n := app("str.len", v.T)
		return &Val{K: KSlice, Ty: to, Ref: ref, Off: "0", Len: n, Cap: n, Content: v.T, ContentVer: st.hbVer}
	case fk == KSlice && tk == KStr && isByteSlice(from):
		return strVal(r.content(st, v))
	case fk == KStr && tk == KStr:
		return mkScalar(to, v.T)
	case fk == KInt && tk == KStr:
		return strVal(app("str.from_code", v.T))
	case fk == KPtr && tk == KPtr, fk == KInt && tk == KPtr, fk == KPtr && tk == KInt:
		nv := *v
		nv.Ty = to
		return &nv
	}
	r.note("unmodelled", "conversion %v -> %v in %s", from, to, fnName(fr.fn))
	return r.freshVal(st, to, "convert")
}

func rangeWithin(flo, fhi, lo, hi string) bool {
	// compare as big decimal strings using the known table
	ord := map[string]int{"(- 9223372036854775808)": -64, "(- 2147483648)": -32, "(- 32768)": -16, "(- 128)": -8, "0": 0,
		"127": 7, "255": 8, "32767": 15, "65535": 16, "2147483647": 31, "4294967295": 32, "9223372036854775807": 63, "18446744073709551615": 64}
	return ord[flo] >= ord[lo] && ord[fhi] <= ord[hi]
}

func (r *Run) typeAssert(fr *Frame, st *State, x *ssa.TypeAssert) *Val {
	v := r.val(fr, st, x.X)
	var res *Val
	var ok string
	if _, isIface := x.AssertedType.Underlying().(*types.Interface); isIface {
		nv := *v
		nv.Ty = x.AssertedType
		res = &nv
		ok = r.fresh("assert.ok", "Bool")
		st.assume(app("=>", ok, not(app("=", v.T, "0"))))
	} else if v.Box != nil && types.Identical(v.Box.Ty, x.AssertedType) {
		res = v.Box
		ok = "true"
	} else if v.Box != nil && v.Box.Ty != nil {
		res = r.zeroVal(x.AssertedType)
		ok = "false"
	} else {
		st.uses["dyntype"] = true
		ok = app("and", not(app("=", v.T, "0")), app("=", app("dyntype", v.T), r.eng.typeID(x.AssertedType)))
		if kindOf(x.AssertedType) == KPtr {
			res = mkScalar(x.AssertedType, v.T)
		} else {
			res = r.freshVal(st, x.AssertedType, "assert")
		}
	}
	if x.CommaOk {
		return tupleOf(x.Type(), res, boolVal(ok))
	}
	r.safety(fr, st, "typeassert", x, ok)
	return res
}
