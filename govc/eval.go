package main

import (
	"fmt"
	"go/types"
	"strings"

	"golang.org/x/tools/go/ssa"
)

// Env is the environment a contract expression is evaluated in.
type Env struct {
	r    *Run
	st   *State
	old  *State
	fr   *Frame
	vars map[string]*Val
	ctx  string
	pre  *State // state at loop entry, for (pre e) inside loop invariants
}

func (e *Env) with(vars map[string]*Val) *Env {
	n := *e
	n.vars = map[string]*Val{}
	for k, v := range e.vars {
		n.vars[k] = v
	}
	for k, v := range vars {
		n.vars[k] = v
	}
	return &n
}

func opaque(t string) *Val { return &Val{K: KOpaque, T: t} }

func (r *Run) evalBool(e *Env, x *SX) string { return r.evalTerm(e, x) }

func (r *Run) evalTerm(e *Env, x *SX) string {
	v := r.eval(e, x)
	if v == nil {
		return "true"
	}
	switch v.K {
	case KSlice, KStruct, KTuple, KArray:
		r.toolErr("%s: contract expression %s denotes a composite value", e.ctx, x)
		return "0"
	}
	return r.termOf(v)
}

func isIntLit(s string) bool {
	if s == "" {
		return false
	}
	for i, c := range s {
		if c == '-' && i == 0 && len(s) > 1 {
			continue
		}
		if c < '0' || c > '9' {
			return false
		}
	}
	return true
}

func isDecimalLit(s string) bool {
	parts := strings.Split(s, ".")
	return len(parts) == 2 && isIntLit(parts[0]) && isIntLit(parts[1]) && !strings.HasPrefix(parts[1], "-")
}

func findField(t types.Type, name string) (int, types.Type, bool) {
	st, ok := t.Underlying().(*types.Struct)
	if !ok {
		return 0, nil, false
	}
	for i := 0; i < st.NumFields(); i++ {
		if st.Field(i).Name() == name {
			return i, st.Field(i).Type(), true
		}
	}
	return 0, nil, false
}

// fieldPath resolves a field name, descending through embedded structs if necessary.
func fieldPath(t types.Type, name string) ([]int, bool) {
	if i, _, ok := findField(t, name); ok {
		return []int{i}, true
	}
	st, ok := t.Underlying().(*types.Struct)
	if !ok {
		return nil, false
	}
	for i := 0; i < st.NumFields(); i++ {
		if st.Field(i).Embedded() {
			ft := st.Field(i).Type()
			if _, isPtr := ft.Underlying().(*types.Pointer); isPtr {
				continue
			}
			if p, ok := fieldPath(ft, name); ok {
				return append([]int{i}, p...), true
			}
		}
	}
	return nil, false
}

func (r *Run) selectField(e *Env, base *Val, name string, x *SX) *Val {
	switch base.K {
	case KPtr:
		t := fieldType(base.P.Root, base.P.Path)
		p, ok := fieldPath(t, name)
		if !ok {
			r.toolErr("%s: no field %s in %v (%s)", e.ctx, name, t, x)
			return opaque("0")
		}
		np := &Ptr{Kind: base.P.Kind, T: base.P.T, Idx: base.P.Idx, Cell: base.P.Cell, Root: base.P.Root, Fam: base.P.Fam, Path: append(append([]int{}, base.P.Path...), p...)}
		ft := fieldType(np.Root, np.Path)
		if _, isStruct := ft.Underlying().(*types.Struct); isStruct && !isOpaqueNamed(ft) {
			// keep as pointer for further navigation
			return &Val{K: KPtr, Ty: types.NewPointer(ft), P: np}
		}
		return r.load(e.st, np)
	case KStruct:
		p, ok := fieldPath(base.Ty, name)
		if !ok {
			r.toolErr("%s: no field %s in %v (%s)", e.ctx, name, base.Ty, x)
			return opaque("0")
		}
		return leafVal(base, p)
	case KIface:
		if base.Box != nil {
			return r.selectField(e, base.Box, name, x)
		}
	}
	r.toolErr("%s: cannot select field %s of %s (kind %d) in %s", e.ctx, name, base, base.K, x)
	return opaque("0")
}

func (r *Run) eval(e *Env, x *SX) *Val {
	if x.IsAtom() {
		if x.IsStr {
			return strVal(smtStr(x.Atom))
		}
		a := x.Atom
		switch {
		case a == "true" || a == "false":
			return boolVal(a)
		case a == "nil":
			return opaque("0")
		case isIntLit(a):
			if a[0] == '-' {
				return intVal("(- " + a[1:] + ")")
			}
			return intVal(a)
		case isDecimalLit(a):
			return opaque(a)
		}
		if v, ok := e.vars[a]; ok {
			return v
		}
		if t, ok := r.ghostVar(e.st, a); ok {
			return opaque(t)
		}
		return opaque(a)
	}
	if len(x.List) == 0 {
		return opaque("()")
	}
	h := x.Head()
	args := x.List[1:]
	switch h {
	case "old":
		if e.old == nil {
			r.toolErr("%s: (old ...) used where there is no pre-state: %s", e.ctx, x)
			return r.eval(e, args[0])
		}
		n := *e
		n.st = e.old
		return r.eval(&n, args[0])
	case "cast":
		// (cast "*pkg.T" x): view an interface/pointer-valued term as a pointer to T (no check: guard with dyntype)
		t := r.eng.typeByName(args[0].Atom)
		if t == nil {
			r.toolErr("%s: cast to unknown type %q", e.ctx, args[0].Atom)
			return opaque("0")
		}
		v := r.eval(e, args[1])
		return mkScalar(t, r.termOf(v))
	case "pre":
		if e.pre == nil {
			r.toolErr("%s: (pre ...) is only meaningful inside a loop invariant: %s", e.ctx, x)
			return r.eval(e, args[0])
		}
		n := *e
		n.st = e.pre
		return r.eval(&n, args[0])
	case ".":
		v := r.eval(e, args[0])
		for _, f := range args[1:] {
			v = r.selectField(e, v, f.Atom, x)
		}
		if v.K == KPtr && v.P.Kind != PHeap {
			return v
		}
		return v
	case "deref":
		v := r.eval(e, args[0])
		if v.K != KPtr {
			r.toolErr("%s: deref of non-pointer in %s", e.ctx, x)
			return opaque("0")
		}
		return r.load(e.st, v.P)
	case "len", "cap":
		v := r.eval(e, args[0])
		switch v.K {
		case KSlice:
			if h == "cap" {
				return intVal(v.Cap)
			}
			return intVal(v.Len)
		case KStr:
			return intVal(app("str.len", v.T))
		case KMap:
			mt := v.Ty.Underlying().(*types.Map)
			_, lenN := mapArrNames(mt)
			l := app("select", r.heapArr(e.st, lenN, "Int"), v.T)
			e.st.assume(app("<=", "0", l)) // a map's size is never negative
			return intVal(l)
		case KOpaque:
			return intVal(app("str.len", v.T))
		}
		r.toolErr("%s: len of %s", e.ctx, x)
		return intVal("0")
	case "content":
		v := r.eval(e, args[0])
		if v.K != KSlice {
			r.toolErr("%s: content of non-slice in %s", e.ctx, x)
			return strVal(`""`)
		}
		return strVal(r.content(e.st, v))
	case "ref":
		v := r.eval(e, args[0])
		if v.K == KSlice {
			return intVal(v.Ref)
		}
		return intVal(r.termOf(v))
	case "off":
		v := r.eval(e, args[0])
		return intVal(v.Off)
	case "elem":
		v := r.eval(e, args[0])
		i := r.evalTerm(e, args[1])
		if v.K != KSlice {
			r.toolErr("%s: elem of non-slice in %s", e.ctx, x)
			return opaque("0")
		}
		et := v.Ty.Underlying().(*types.Slice).Elem()
		p := &Ptr{Kind: PElem, T: v.Ref, Idx: simplifyAdd(v.Off, i), Root: et, Fam: v.Fam}
		if isByteType(et) {
			return intVal(app("str.to_code", app("str.at", r.content(e.st, v), i)))
		}
		if _, isStruct := et.Underlying().(*types.Struct); isStruct && !isOpaqueNamed(et) {
			return &Val{K: KPtr, Ty: types.NewPointer(et), P: p}
		}
		return r.load(e.st, p)
	case "callresult", "called", "callarg":
		// (callresult "callee" k i): i-th result of the k-th call of callee on this path; (called "callee" k)
		k := "0"
		if len(args) > 1 {
			k = args[1].Atom
		}
		key := args[0].Atom + "#" + k
		if h == "callarg" {
			// (callarg "callee" k i): the i-th argument (receiver first) the k-th call of callee was made with; pointer arguments
			// are dereferenced in the state the clause is evaluated in
			key = "arg:" + key
		}
		res, ok := e.st.calls[key]
		if !ok && k == "0" && h == "callarg" {
			n := 0
			for k2, v := range e.st.calls {
				if !strings.HasPrefix(k2, "arg:") {
					continue
				}
				if i := strings.LastIndex(k2, ":"+args[0].Atom+"#"); i >= 0 && !strings.Contains(k2[i+1:], ":") {
					res, n = v, n+1
				}
			}
			if ok = n == 1; !ok {
				res = nil
			}
		}
		if !ok && k == "0" && h != "callarg" {
			// the call may have moved into a helper that is verified inlined: if exactly one call of that callee was made inside
			// helpers on this path, that is the one
			n := 0
			for k2, v := range e.st.calls {
				if strings.HasPrefix(k2, "arg:") {
					continue // argument records of (callarg ...) live in the same map
				}
				if i := strings.LastIndex(k2, ":"+args[0].Atom+"#"); i >= 0 && !strings.Contains(k2[i+1:], ":") {
					res, n = v, n+1
				}
			}
			ok = n == 1
			if !ok {
				res = nil
			}
		}
		if h == "called" {
			if ok {
				return boolVal("true")
			}
			return boolVal("false")
		}
		i := 0
		if len(args) > 2 {
			fmt.Sscanf(args[2].Atom, "%d", &i)
		}
		if !ok || i >= len(res) {
			// the call did not happen on this path: an unconstrained value of the right type (guard with (called ...))
			ti := i
			if h == "callarg" {
				ti = -i - 1
			}
			if t := r.callResultType(args[0].Atom, k, ti); t != nil {
				return r.freshVal(e.st.clone(), t, "nocall")
			}
			return opaque(r.fresh("nocall", "Int"))
		}
		return res[i]
	case "elemfield":
		// (elemfield s "Field.Path"): the array holding that field of every element of slice s (index with absolute positions)
		v := r.eval(e, args[0])
		if v.K != KSlice {
			r.toolErr("%s: elemfield of non-slice in %s", e.ctx, x)
			return opaque("0")
		}
		et := v.Ty.Underlying().(*types.Slice).Elem()
		for _, lf := range structLeaves(et) {
			if lf.name == args[1].Atom {
				return opaque(app("select", r.heapArr(e.st, sliceArrayName(et, lf.name)+v.Fam, "(Array Int "+scalarSort(lf.ty)+")"), v.Ref))
			}
		}
		r.toolErr("%s: no field %s in elements of %s", e.ctx, args[1].Atom, x)
		return opaque("0")
	case "elemarr":
		v := r.eval(e, args[0])
		if v.K != KSlice {
			r.toolErr("%s: elemarr of non-slice in %s", e.ctx, x)
			return opaque("0")
		}
		et := v.Ty.Underlying().(*types.Slice).Elem()
		srt := scalarSort(et)
		return opaque(app("select", r.heapArr(e.st, sliceArrayName(et, "")+v.Fam, "(Array Int "+srt+")"), v.Ref))
	case "local":
		if e.fr == nil {
			r.toolErr("%s: (local ...) outside a function body: %s", e.ctx, x)
			return opaque("0")
		}
		name := args[0].Atom
		k := 0
		if len(args) > 1 {
			fmt.Sscanf(args[1].Atom, "%d", &k)
		}
		cs := e.fr.cellsBy[name]
		if k >= len(cs) {
			// a clause of the function under verification evaluated at a call inside one of its helpers: its locals are those of the
			// calling frames
			for pf := e.fr.parent; pf != nil && k >= len(cs); pf = pf.parent {
				cs = pf.cellsBy[name]
			}
		}
		if k >= len(cs) && k == 0 {
			// not a local variable of this frame: a parameter of that name will do (the call may have moved into a helper)
			for _, p := range e.fr.fn.Params {
				if p.Name() == name {
					if v, ok := e.fr.vals[p]; ok {
						return v
					}
				}
			}
		}
		if k >= len(cs) {
			r.toolErr("%s: no local %q (#%d) allocated at this point in %s", e.ctx, name, k, fnName(e.fr.fn))
			return opaque("0")
		}
		v := e.st.cells[cs[k].id]
		if v == nil {
			r.toolErr("%s: local %q has no value in this state", e.ctx, name)
			return opaque("0")
		}
		return v
	case "mapin", "mapget":
		m := r.eval(e, args[0])
		k := r.evalTerm(e, args[1])
		mt, ok := m.Ty.Underlying().(*types.Map)
		if !ok {
			r.toolErr("%s: %s on non-map", e.ctx, h)
			return opaque("false")
		}
		v, in := r.mapLoad(e.st, mt, m.T, k)
		if h == "mapin" {
			return boolVal(in)
		}
		return v
	case "fn":
		return intVal(r.eng.fnID(args[0].Atom))
	case "global":
		return opaque(r.eng.fnID("global:" + args[0].Atom))
	case "typeid":
		id, ok := r.eng.typeIDs[args[0].Atom]
		if !ok {
			id = 1 + len(r.eng.typeIDs)
			r.eng.typeIDs[args[0].Atom] = id
		}
		return intVal(fmt.Sprint(id))
	case "boxed":
		v := r.eval(e, args[0])
		if v.K == KIface && v.Box != nil {
			return v.Box
		}
		r.toolErr("%s: boxed value unknown in %s", e.ctx, x)
		return opaque("0")
	case "heap":
		name := "H " + args[0].Atom
		srt := "Int"
		if len(args) > 1 {
			srt = args[1].String()
		}
		return opaque(r.heapArr(e.st, name, srt))
	case "heapframe":
		// (heapframe "array name" ref...): every pre-existing object other than the listed ones is unchanged
		name := args[0].Atom
		args = args[1:]
		elem := "String"
		if name != "Hb" {
			if len(args) == 0 {
				r.toolErr("%s: (heapframe name elemsort ref...) needs the element sort", e.ctx)
				return boolVal("true")
			}
			elem = args[0].String()
			args = args[1:]
		}
		if e.old == nil {
			r.toolErr("%s: heapframe needs a pre-state", e.ctx)
			return boolVal("true")
		}
		cur := r.heapArr(e.st, name, elem)
		old := r.heapArr(e.old, name, elem)
		conds := []string{app(">", "x!h", "0")}
		for _, a := range args {
			conds = append(conds, not(app("=", "x!h", r.evalTerm(e, a))))
		}
		if cur == old {
			return boolVal("true")
		}
		return boolVal(fmt.Sprintf("(forall ((x!h Int)) (=> %s (= (select %s x!h) (select %s x!h))))", and(conds...), cur, old))
	case "forall", "exists", "lambda":
		ne := e.with(nil)
		var binds []string
		for _, b := range args[0].List {
			ne.vars[b.List[0].Atom] = opaque(b.List[0].Atom)
			binds = append(binds, "("+b.List[0].Atom+" "+b.List[1].String()+")")
		}
		before := len(e.st.pc)
		var beforeOld int
		if e.old != nil {
			beforeOld = len(e.old.pc)
		}
		body := r.evalTerm(ne, args[1])
		// side assumptions (type ranges of loaded values) that mention the bound variables make no sense outside the binder
		var names []string
		for _, b := range args[0].List {
			names = append(names, b.List[0].Atom)
		}
		dropBound(e.st, before, names)
		if e.old != nil {
			dropBound(e.old, beforeOld, names)
		}
		return boolVal("(" + h + " (" + strings.Join(binds, " ") + ") " + body + ")")
	case "!":
		body := r.evalTerm(e, args[0])
		parts := []string{body}
		for _, a := range args[1:] {
			if a.IsAtom() {
				parts = append(parts, a.Atom)
				continue
			}
			var pats []string
			for _, p := range a.List {
				pats = append(pats, r.evalTerm(e, p))
			}
			parts = append(parts, "("+strings.Join(pats, " ")+")")
		}
		return boolVal("(! " + strings.Join(parts, " ") + ")")
	case "let":
		ne := e.with(nil)
		var binds []string
		for _, b := range args[0].List {
			t := r.evalTerm(e, b.List[1])
			binds = append(binds, "("+b.List[0].Atom+" "+t+")")
		}
		for _, b := range args[0].List {
			ne.vars[b.List[0].Atom] = opaque(b.List[0].Atom)
		}
		body := r.evalTerm(ne, args[1])
		return opaque("(let (" + strings.Join(binds, " ") + ") " + body + ")")
	case "_", "as":
		return opaque(x.String())
	case "isnil":
		v := r.eval(e, args[0])
		if v.K == KSlice {
			return boolVal(app("=", v.Ref, "0"))
		}
		if v.K == KPtr && v.P.Kind != PHeap {
			return boolVal("false")
		}
		return boolVal(app("=", r.termOf(v), "0"))
	}
	if h == "=>" && len(args) == 2 {
		prem := r.evalTerm(e, args[0])
		if v, known := foldLitBool(prem); known && !v {
			prem = "false" // decided by the literals alone: the conclusion need not even be evaluable at this site
		}
		if prem == "false" {
			return boolVal("true")
		}
		concl := r.evalTerm(e, args[1])
		return boolVal(implies(prem, concl))
	}
	// generic application: (head args...) with every argument evaluated to a term
	var head string
	if x.List[0].IsList() {
		head = x.List[0].String()
	} else {
		head = x.List[0].Atom
		if d := r.eng.C.DeclBy["uf:"+head]; d != nil {
			for _, u := range d.usesOf() {
				e.st.uses[u] = true
			}
		}
	}
	ts := make([]string, len(args))
	for i, a := range args {
		ts[i] = r.evalTerm(e, a)
	}
	if len(ts) == 0 {
		return opaque("(" + head + ")")
	}
	switch head {
	case "and":
		return boolVal(and(ts...))
	case "not":
		return boolVal(not(ts[0]))
	}
	return opaque(app(head, ts...))
}

// usesOf: (uf name (sorts) sort (use ax...)) lets a UF pull in its axioms wherever it is mentioned.
func (d *Decl) usesOf() []string {
	for _, e := range d.SX.List {
		if e.Head() == "use" {
			return atoms(e)[1:]
		}
	}
	return nil
}

// callResultType finds the static type of result i of the k-th call of callee `name` in the function under verification.
func (r *Run) callResultType(name, k string, i int) types.Type {
	for _, b := range r.fn.Blocks {
		for _, in := range b.Instrs {
			c, ok := in.(*ssa.Call)
			if !ok {
				continue
			}
			cn := strings.TrimPrefix(r.eng.calleeName(&c.Call), "dyn:")
			if cn != name || fmt.Sprint(r.eng.callOrdinal(in, r.eng.calleeName(&c.Call))) != k {
				continue
			}
			if i < 0 { // (callarg ...): type of argument -i-1, receiver of an interface call first
				j := -i - 1
				if c.Call.IsInvoke() {
					if j == 0 {
						return c.Call.Value.Type()
					}
					j--
				}
				if j < len(c.Call.Args) {
					return c.Call.Args[j].Type()
				}
				return nil
			}
			res := c.Call.Signature().Results()
			if i < res.Len() {
				return res.At(i).Type()
			}
		}
	}
	return nil
}

func dropBound(st *State, from int, names []string) {
	if from >= len(st.pc) {
		return
	}
	keep := st.pc[:from:from]
	for _, a := range st.pc[from:] {
		bad := false
		for _, n := range names {
			if hasToken(a, n) {
				bad = true
				break
			}
		}
		if bad {
			delete(st.lits, a)
		} else {
			keep = append(keep, a)
		}
	}
	st.pc = keep
}

func hasToken(s, tok string) bool {
	for i := 0; i+len(tok) <= len(s); i++ {
		if s[i:i+len(tok)] != tok {
			continue
		}
		okL := i == 0 || strings.ContainsRune(" ()", rune(s[i-1]))
		okR := i+len(tok) == len(s) || strings.ContainsRune(" ()", rune(s[i+len(tok)]))
		if okL && okR {
			return true
		}
	}
	return false
}

// foldLitBool decides a boolean term built from and/or/not over comparisons (=, str.prefixof, str.suffixof, str.contains) of string
// literals; known=false when anything else occurs.
func foldLitBool(term string) (val, known bool) {
	if term == "true" {
		return true, true
	}
	if term == "false" {
		return false, true
	}
	xs, err := parseAll("", term, 0)
	if err != nil || len(xs) != 1 {
		return false, false
	}
	return foldSX(xs[0])
}

func litStr(x *SX) (string, bool) {
	if x.IsList() || !x.IsStr {
		return "", false
	}
	return x.Atom, true
}

func foldSX(x *SX) (bool, bool) {
	if !x.IsList() {
		switch x.Atom {
		case "true":
			return true, true
		case "false":
			return false, true
		}
		return false, false
	}
	if len(x.List) == 0 || x.List[0].IsList() {
		return false, false
	}
	args := x.List[1:]
	switch x.List[0].Atom {
	case "not":
		if len(args) == 1 {
			v, k := foldSX(args[0])
			return !v, k
		}
	case "and", "or":
		isAnd := x.List[0].Atom == "and"
		allKnown, acc := true, isAnd
		for _, a := range args {
			v, k := foldSX(a)
			if !k {
				allKnown = false
				continue
			}
			if isAnd && !v {
				return false, true
			}
			if !isAnd && v {
				return true, true
			}
		}
		return acc, allKnown
	case "=", "str.prefixof", "str.suffixof", "str.contains":
		if len(args) != 2 {
			return false, false
		}
		a, ok1 := litStr(args[0])
		b, ok2 := litStr(args[1])
		if !ok1 || !ok2 {
			return false, false
		}
		switch x.List[0].Atom {
		case "=":
			return a == b, true
		case "str.prefixof":
			return strings.HasPrefix(b, a), true
		case "str.suffixof":
			return strings.HasSuffix(b, a), true
		case "str.contains":
			return strings.Contains(a, b), true
		}
	}
	return false, false
}
