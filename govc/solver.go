package main

import (
	"bytes"
	"context"
	"fmt"
	"os"
	"os/exec"
	"path/filepath"
	"sort"
	"strings"
	"sync"
	"time"
)

type SolveResult struct {
	Status   string // unsat sat unknown
	Solver   string
	Seconds  float64
	Outputs  map[string]string // solver -> first lines of output
	Model    string
	File     string
	Disagree bool
}

// prelude renders sorts, uninterpreted functions and spec functions (all of them), and the
// requested axioms/lemmas (transitively closed over their own `use` lists).
func (c *Contracts) prelude(uses []string, forSolver string) (string, []string) {
	concrete := forSolver == "concrete"
	var sb strings.Builder
	var late []string
	for _, d := range c.Decls {
		if d.Kind == "uf" && concrete {
			if spec, ok := c.Concrete[d.Name]; ok {
				// define after all spec functions: name(args) := spec(args)
				sorts := d.SX.List[2].List
				var ps, as []string
				for i, srt := range sorts {
					ps = append(ps, fmt.Sprintf("(x%d %s)", i, srt.String()))
					as = append(as, fmt.Sprintf("x%d", i))
				}
				late = append(late, fmt.Sprintf("(define-fun %s (%s) %s (%s %s))\n", d.Name, strings.Join(ps, " "), d.SX.List[3].String(), spec, strings.Join(as, " ")))
				continue
			}
		}
		switch d.Kind {
		case "sort":
			fmt.Fprintf(&sb, "(declare-sort %s 0)\n", d.Name)
		case "uf":
			// (uf name (S...) S)
			fmt.Fprintf(&sb, "(declare-fun %s %s %s)\n", d.Name, d.SX.List[2].String(), d.SX.List[3].String())
		case "const":
			fmt.Fprintf(&sb, "(declare-fun %s () %s)\n", d.Name, d.SX.List[2].String())
		case "fnconst", "typeconst":
			fmt.Fprintf(&sb, "(define-fun %s () Int %s)\n", d.Name, c.constID[d.Name])
		case "spec":
			h := d.SX.List[1]
			var ps []string
			for _, p := range h.List[1:] {
				ps = append(ps, p.String())
			}
			fmt.Fprintf(&sb, "(define-fun %s (%s) %s %s)\n", d.Name, strings.Join(ps, " "), d.SX.List[2].String(), d.SX.List[3].String())
		case "specrec":
			h := d.SX.List[1]
			var ps []string
			for _, p := range h.List[1:] {
				ps = append(ps, p.String())
			}
			fmt.Fprintf(&sb, "(define-fun-rec %s (%s) %s %s)\n", d.Name, strings.Join(ps, " "), d.SX.List[2].String(), d.SX.List[3].String())
		}
	}
	if concrete {
		// model-finding mode: concrete definitions, no quantified axioms (any model is checked by replay)
		// the concrete specs must precede their users: emit them now; users among the spec functions were declared earlier
		// only as uninterpreted symbols if they are not concretised, which is fine for finding candidate inputs
		return reorderConcrete(sb.String(), late), nil
	}
	seen := map[string]bool{}
	var order []string
	var visit func(n string)
	visit = func(n string) {
		if seen[n] {
			return
		}
		seen[n] = true
		d := c.DeclBy["axiom:"+n]
		if d == nil {
			d = c.DeclBy["lemma:"+n]
		}
		if d == nil {
			return // names of engine-internal groups (dyntype, itoa, ...) without an axiom are fine
		}
		for _, u := range d.Uses {
			visit(u)
		}
		order = append(order, n)
	}
	for _, u := range uses {
		visit(u)
	}
	var used []string
	for _, n := range order {
		d := c.DeclBy["axiom:"+n]
		if d == nil {
			d = c.DeclBy["lemma:"+n]
		}
		fmt.Fprintf(&sb, "(assert %s) ; %s %s\n", d.Body.String(), d.Kind, d.Name)
		used = append(used, d.Kind+":"+d.Name)
	}
	return sb.String(), used
}

func (q *Query) script(c *Contracts) (string, []string) { return q.scriptWith(c, q.PC) }

// symbolsOf returns the declared symbols (run constants) occurring in a term.
func symbolsOf(t string, declared map[string]bool) []string {
	var out []string
	i := 0
	for i < len(t) {
		c := t[i]
		switch {
		case c == '"':
			i++
			for i < len(t) {
				if t[i] == '"' {
					if i+1 < len(t) && t[i+1] == '"' {
						i += 2
						continue
					}
					break
				}
				i++
			}
			i++
		case c == '|':
			j := strings.IndexByte(t[i+1:], '|')
			if j < 0 {
				return out
			}
			tok := t[i : i+j+2]
			if declared[tok] {
				out = append(out, tok)
			}
			i += j + 2
		case c == '(' || c == ')' || c == ' ' || c == '\n' || c == '\t':
			i++
		default:
			j := i
			for j < len(t) && t[j] != '(' && t[j] != ')' && t[j] != ' ' && t[j] != '\n' {
				j++
			}
			tok := t[i:j]
			if declared[tok] {
				out = append(out, tok)
			}
			i = j
		}
	}
	return out
}

// slicePC keeps the assumptions connected to the goal through shared symbols. Dropping assumptions is
// always sound for a validity query. With hubLimit > 0, symbols occurring in more than hubLimit
// assumptions do not connect (heap arrays, loop counters shared by everything).
func (q *Query) slicePC(hubLimit int) []string {
	if q.Run == nil {
		return q.PC
	}
	declared := q.Run.declSet
	syms := make([][]string, len(q.PC))
	count := map[string]int{}
	for i, a := range q.PC {
		seen := map[string]bool{}
		for _, s := range symbolsOf(a, declared) {
			if !seen[s] {
				seen[s] = true
				syms[i] = append(syms[i], s)
				count[s]++
			}
		}
	}
	hub := func(s string) bool { return hubLimit > 0 && count[s] > hubLimit }
	cone := map[string]bool{}
	for _, s := range symbolsOf(q.Goal, declared) {
		cone[s] = true
	}
	in := make([]bool, len(q.PC))
	for changed := true; changed; {
		changed = false
		for i := range q.PC {
			if in[i] {
				continue
			}
			hit := len(syms[i]) == 0
			for _, s := range syms[i] {
				if cone[s] && !hub(s) {
					hit = true
					break
				}
			}
			if !hit && hubLimit > 0 {
				// all symbols already in the cone (possibly hubs)
				all := true
				for _, s := range syms[i] {
					if !cone[s] {
						all = false
						break
					}
				}
				hit = all
			}
			if hit {
				in[i] = true
				changed = true
				for _, s := range syms[i] {
					cone[s] = true
				}
			}
		}
	}
	var out []string
	for i, a := range q.PC {
		if in[i] {
			out = append(out, a)
		}
	}
	return out
}

// dropHeavy removes byte-heap and substring facts when the goal does not talk about them.
func (q *Query) dropHeavy(pc []string) []string {
	heavy := []string{"Hb", "str.substr"}
	var active []string
	for _, h := range heavy {
		if !strings.Contains(q.Goal, h) {
			active = append(active, h)
		}
	}
	var out []string
	for _, a := range pc {
		drop := false
		for _, h := range active {
			if strings.Contains(a, h) {
				drop = true
			}
		}
		if !drop {
			out = append(out, a)
		}
	}
	return out
}

func (q *Query) scriptWith(c *Contracts, pc []string) (string, []string) {
	mode := ""
	if q.concrete {
		mode = "concrete"
	}
	pre, used := c.prelude(q.Uses, mode)
	var sb strings.Builder
	sb.WriteString("(set-option :produce-models true)\n(set-logic ALL)\n")
	sb.WriteString(pre)
	if q.Run != nil {
		for _, d := range q.Run.decls {
			sb.WriteString(d)
			sb.WriteByte('\n')
		}
	}
	for _, a := range pc {
		fmt.Fprintf(&sb, "(assert %s)\n", a)
	}
	if !q.Cover {
		fmt.Fprintf(&sb, "(assert (not %s))\n", q.Goal)
	}
	sb.WriteString("(check-sat)\n(get-model)\n")
	return sb.String(), used
}

type solverSpec struct {
	name string
	cmd  func(file string, timeout int) []string
}

var solvers = []solverSpec{
	{"z3-4.8.12", func(f string, t int) []string { return []string{"/usr/bin/z3", fmt.Sprintf("-T:%d", t), f} }},
	{"z3-5.1.0", func(f string, t int) []string { return []string{"z3-new", fmt.Sprintf("-T:%d", t), f} }},
	{"cvc5-1.0.3", func(f string, t int) []string {
		return []string{"/usr/bin/cvc5", "--strings-exp", fmt.Sprintf("--tlimit=%d", t*1000), f}
	}},
}

// procSem bounds the number of solver processes running at once (one per core), so that per-query time
// limits measure solver work rather than contention.
var procSem = make(chan struct{}, 16)

// wallFactor: how much longer than its CPU-time limit a solver may take in wall-clock time (machine under load).
const wallFactor = 8

func runSolver(ctx context.Context, s solverSpec, file string, timeout int) (status, out string) {
	select {
	case procSem <- struct{}{}:
	case <-ctx.Done():
		return "unknown", "cancelled"
	}
	defer func() { <-procSem }()
	if ctx.Err() != nil {
		return "unknown", "cancelled"
	}
	// The limit is CPU time (RLIMIT_CPU through the shell's ulimit), so that a loaded machine makes a query slower but does not
	// make it time out; the solvers' own wall-clock options and the context are generous backstops only.
	args := s.cmd(file, timeout*wallFactor)
	cctx, cancel := context.WithTimeout(ctx, time.Duration(timeout*wallFactor+2)*time.Second)
	defer cancel()
	sh := append([]string{"-c", fmt.Sprintf("ulimit -t %d; exec \"$@\"", timeout), "sh"}, args...)
	cmd := exec.CommandContext(cctx, "/bin/sh", sh...)
	var buf bytes.Buffer
	cmd.Stdout = &buf
	cmd.Stderr = &buf
	cmd.Run() //nolint:errcheck
	out = buf.String()
	first := strings.TrimSpace(strings.SplitN(out, "\n", 2)[0])
	switch first {
	case "unsat", "sat":
		return first, out
	}
	if strings.HasPrefix(first, "(error") || strings.Contains(out, "(error") && !strings.Contains(first, "unknown") && first != "timeout" {
		return "error", out
	}
	return "unknown", out
}

func trunc(s string, n int) string {
	if len(s) > n {
		return s[:n] + "…"
	}
	return s
}

// solve discharges one query: old z3 first (fast on the common case), then all three raced.
func solve(q *Query, c *Contracts, dir string, timeout int, cross bool) *SolveResult {
	if q.short && timeout > 4 {
		timeout = 4
	}
	first := timeout
	if !q.Cover && !cross && timeout > 4 && q.Run != nil {
		first = 4
	}
	res := solveScript(q, c, dir, first, cross, q.PC, "")
	if res.Status != "unknown" || q.Cover || q.Run == nil || first == timeout {
		return res
	}
	// second stage: the full query and its sliced variants (sound: fewer assumptions) run side by side;
	// an unsat answer from any of them discharges the obligation, sat only counts from the full query
	type job struct {
		pc  []string
		tag string
	}
	jobs := []job{{q.PC, ""}}
	seen := map[int]bool{len(q.PC): true}
	for k, pc := range [][]string{q.dropHeavy(q.PC), q.slicePC(0), q.dropHeavy(q.slicePC(0))} {
		if !seen[len(pc)] {
			seen[len(pc)] = true
			jobs = append(jobs, job{pc, fmt.Sprintf(".s%d", k)})
		}
	}
	out := make(chan *SolveResult, len(jobs))
	for _, jb := range jobs {
		go func(jb job) {
			r := solveScript(q, c, dir, timeout, false, jb.pc, jb.tag)
			if jb.tag != "" {
				if r.Status == "unsat" {
					r.Solver += fmt.Sprintf(" (sliced %d/%d assumptions)", len(jb.pc), len(q.PC))
				} else {
					r.Status = "unknown"
				}
			}
			out <- r
		}(jb)
	}
	best := res
	for range jobs {
		r := <-out
		if r.Status == "unsat" {
			r.Seconds += res.Seconds
			return r
		}
		if r.Status == "sat" {
			best = r
		}
	}
	return best
}

func solveScript(q *Query, c *Contracts, dir string, timeout int, cross bool, pc []string, tag string) *SolveResult {
	script, _ := q.scriptWith(c, pc)
	fn := strings.NewReplacer("/", "_", " ", "_", "*", "", "(", "", ")", "", ":", "_", "|", "_", "$", "_").Replace(q.Name)
	if len(fn) > 180 {
		fn = fn[:180]
	}
	file := filepath.Join(dir, fmt.Sprintf("%s.%d%s.smt2", fn, q.seq, tag))
	os.WriteFile(file, []byte(script), 0o644) //nolint:errcheck
	res := &SolveResult{Status: "unknown", Outputs: map[string]string{}, File: file}
	start := time.Now()
	ctx, cancel := context.WithCancel(context.Background())
	defer cancel()

	if len(script) > 400000 {
		res.Outputs["govc"] = fmt.Sprintf("VC size cap exceeded (%d bytes)", len(script))
		return res
	}
	pref := q.prefer
	if q.Cover && timeout > 2 {
		timeout = 2
	}
	quick := 2
	if timeout < quick {
		quick = timeout
	}
	_, _ = quick, pref
	type ans struct {
		s      solverSpec
		st, o  string
	}
	ch := make(chan ans, len(solvers))
	var wg sync.WaitGroup
	n := 0
	for i, s := range solvers {
		_ = i
		n++
		wg.Add(1)
		go func(s solverSpec) {
			defer wg.Done()
			st, o := runSolver(ctx, s, file, timeout)
			ch <- ans{s, st, o}
		}(s)
	}
	go func() { wg.Wait(); close(ch) }()
	for a := range ch {
		res.Outputs[a.s.name] = trunc(a.o, 2000)
		switch a.st {
		case "unsat":
			if res.Status == "sat" {
				res.Disagree = true
			}
			res.Status, res.Solver = "unsat", a.s.name
			if !cross {
				cancel()
				res.Seconds = time.Since(start).Seconds()
				return res
			}
		case "sat":
			if res.Status == "unsat" {
				res.Disagree = true
			} else if res.Status != "sat" {
				res.Status, res.Solver, res.Model = "sat", a.s.name, a.o
			}
			if q.Cover {
				cancel()
				res.Seconds = time.Since(start).Seconds()
				return res
			}
		}
	}
	res.Seconds = time.Since(start).Seconds()
	return res
}

// dischargeAll runs all queries with a worker pool.
func dischargeAll(qs []*Query, c *Contracts, dir string, timeout int, cross bool, workers int) {
	os.MkdirAll(dir, 0o755) //nolint:errcheck
	var failMu sync.Mutex
	failed := map[string]int{}
	budget := 1500 * time.Second
	if cross {
		budget = 3600 * time.Second
	}
	deadline := time.Now().Add(budget)
	var wg sync.WaitGroup
	ch := make(chan *Query)
	for i := 0; i < workers; i++ {
		wg.Add(1)
		go func() {
			defer wg.Done()
			for q := range ch {
				if q.Goal == "true" && !q.Cover {
					q.Result = &SolveResult{Status: "unsat", Solver: "syntactic", Outputs: map[string]string{}}
					continue
				}
				if time.Now().After(deadline) {
					// On the pinned tree every obligation discharges long before this; the budget only ends runs
					// on trees where many obligations no longer discharge.
					q.Result = &SolveResult{Status: "unknown", Outputs: map[string]string{"govc": "not attempted: time budget of this run exhausted by undischarged obligations"}}
					continue
				}
				failMu.Lock()
				nf := failed[q.Fn]
				failMu.Unlock()
				if nf >= 8 && q.Fn != "" {
					// the function is already known to break its contract: the rest of its obligations stay undecided
					q.Result = &SolveResult{Status: "unknown", Outputs: map[string]string{"govc": "not attempted: this function already fails 8 obligations"}}
					continue
				}
				known := q.short // obligations listed as known findings are expected to fail and do not count
				if nf >= 3 {
					q.short = true
				}
				q.Result = solve(q, c, dir, timeout, cross)
				if q.Result.Status != "unsat" && !q.Cover && !known {
					failMu.Lock()
					failed[q.Fn]++
					failMu.Unlock()
				}
			}
		}()
	}
	prio := map[string]int{"lemma": 0, "structural": 0, "ensures": 1, "callsite": 2, "loop": 3, "crashinv": 4, "fsframe": 5, "callreq": 6, "cover": 6, "safety": 7, "frame": 8}
	order := make([]*Query, len(qs))
	copy(order, qs)
	for i, q := range qs {
		q.seq = i
	}
	sort.SliceStable(order, func(i, j int) bool { return prio[order[i].Kind] < prio[order[j].Kind] })
	for _, q := range order {
		ch <- q
	}
	close(ch)
	wg.Wait()
}

// reorderConcrete places the concretised definitions right after the spec function they expand to.
func reorderConcrete(prelude string, late []string) string {
	lines := strings.SplitAfter(prelude, "\n")
	var out []string
	pending := append([]string(nil), late...)
	for _, ln := range lines {
		out = append(out, ln)
		var rest []string
		for _, l := range pending {
			// "(define-fun name (...) S (spec args))": place once the spec has been defined
			i := strings.LastIndex(l, " (")
			spec := strings.Fields(strings.TrimSuffix(strings.TrimSpace(l[i+2:]), "))"))[0]
			if strings.HasPrefix(ln, "(define-fun "+spec+" ") {
				out = append(out, l)
			} else {
				rest = append(rest, l)
			}
		}
		pending = rest
	}
	out = append(out, pending...)
	return strings.Join(out, "")
}
