package main

import (
	"bytes"
	"context"
	"fmt"
	"os"
	"os/exec"
	"path/filepath"
	"strings"
	"sync"
	"time"
)

type SolveResult struct {
	Status   string // unsat sat unknown
	Solver   string
	Seconds  float64
	Outputs  map[string]string // solver -> first lines of output
	Model    string
	File     string
	Disagree bool
}

// prelude renders sorts, uninterpreted functions and spec functions (all of them), and the
// requested axioms/lemmas (transitively closed over their own `use` lists).
func (c *Contracts) prelude(uses []string, forSolver string) (string, []string) {
	var sb strings.Builder
	for _, d := range c.Decls {
		switch d.Kind {
		case "sort":
			fmt.Fprintf(&sb, "(declare-sort %s 0)\n", d.Name)
		case "uf":
			// (uf name (S...) S)
			fmt.Fprintf(&sb, "(declare-fun %s %s %s)\n", d.Name, d.SX.List[2].String(), d.SX.List[3].String())
		case "const":
			fmt.Fprintf(&sb, "(declare-fun %s () %s)\n", d.Name, d.SX.List[2].String())
		case "spec":
			h := d.SX.List[1]
			var ps []string
			for _, p := range h.List[1:] {
				ps = append(ps, p.String())
			}
			fmt.Fprintf(&sb, "(define-fun %s (%s) %s %s)\n", d.Name, strings.Join(ps, " "), d.SX.List[2].String(), d.SX.List[3].String())
		case "specrec":
			h := d.SX.List[1]
			var ps []string
			for _, p := range h.List[1:] {
				ps = append(ps, p.String())
			}
			fmt.Fprintf(&sb, "(define-fun-rec %s (%s) %s %s)\n", d.Name, strings.Join(ps, " "), d.SX.List[2].String(), d.SX.List[3].String())
		}
	}
	seen := map[string]bool{}
	var order []string
	var visit func(n string)
	visit = func(n string) {
		if seen[n] {
			return
		}
		seen[n] = true
		d := c.DeclBy["axiom:"+n]
		if d == nil {
			d = c.DeclBy["lemma:"+n]
		}
		if d == nil {
			return // names of engine-internal groups (dyntype, itoa, ...) without an axiom are fine
		}
		for _, u := range d.Uses {
			visit(u)
		}
		order = append(order, n)
	}
	for _, u := range uses {
		visit(u)
	}
	var used []string
	for _, n := range order {
		d := c.DeclBy["axiom:"+n]
		if d == nil {
			d = c.DeclBy["lemma:"+n]
		}
		fmt.Fprintf(&sb, "(assert %s) ; %s %s\n", d.Body.String(), d.Kind, d.Name)
		used = append(used, d.Kind+":"+d.Name)
	}
	return sb.String(), used
}

func (q *Query) script(c *Contracts) (string, []string) {
	pre, used := c.prelude(q.Uses, "")
	var sb strings.Builder
	sb.WriteString("(set-option :produce-models true)\n(set-logic ALL)\n")
	sb.WriteString(pre)
	if q.Run != nil {
		for _, d := range q.Run.decls {
			sb.WriteString(d)
			sb.WriteByte('\n')
		}
	}
	for _, a := range q.PC {
		fmt.Fprintf(&sb, "(assert %s)\n", a)
	}
	if !q.Cover {
		fmt.Fprintf(&sb, "(assert (not %s))\n", q.Goal)
	}
	sb.WriteString("(check-sat)\n(get-model)\n")
	return sb.String(), used
}

type solverSpec struct {
	name string
	cmd  func(file string, timeout int) []string
}

var solvers = []solverSpec{
	{"z3-4.8.12", func(f string, t int) []string { return []string{"/usr/bin/z3", fmt.Sprintf("-T:%d", t), f} }},
	{"z3-5.1.0", func(f string, t int) []string { return []string{"z3-new", fmt.Sprintf("-T:%d", t), f} }},
	{"cvc5-1.0.3", func(f string, t int) []string {
		return []string{"/usr/bin/cvc5", "--strings-exp", fmt.Sprintf("--tlimit=%d", t*1000), f}
	}},
}

func runSolver(ctx context.Context, s solverSpec, file string, timeout int) (status, out string) {
	args := s.cmd(file, timeout)
	cctx, cancel := context.WithTimeout(ctx, time.Duration(timeout+2)*time.Second)
	defer cancel()
	cmd := exec.CommandContext(cctx, args[0], args[1:]...)
	var buf bytes.Buffer
	cmd.Stdout = &buf
	cmd.Stderr = &buf
	cmd.Run() //nolint:errcheck
	out = buf.String()
	first := strings.TrimSpace(strings.SplitN(out, "\n", 2)[0])
	switch first {
	case "unsat", "sat":
		return first, out
	}
	if strings.HasPrefix(first, "(error") || strings.Contains(out, "(error") && !strings.Contains(first, "unknown") && first != "timeout" {
		return "error", out
	}
	return "unknown", out
}

func trunc(s string, n int) string {
	if len(s) > n {
		return s[:n] + "…"
	}
	return s
}

// solve discharges one query: old z3 first (fast on the common case), then all three raced.
func solve(q *Query, c *Contracts, dir string, timeout int, cross bool) *SolveResult {
	script, _ := q.script(c)
	fn := strings.NewReplacer("/", "_", " ", "_", "*", "", "(", "", ")", "", ":", "_", "|", "_", "$", "_").Replace(q.Name)
	if len(fn) > 180 {
		fn = fn[:180]
	}
	file := filepath.Join(dir, fmt.Sprintf("%s.%d.smt2", fn, q.seq))
	os.WriteFile(file, []byte(script), 0o644) //nolint:errcheck
	res := &SolveResult{Status: "unknown", Outputs: map[string]string{}, File: file}
	start := time.Now()
	ctx, cancel := context.WithCancel(context.Background())
	defer cancel()

	if len(script) > 400000 {
		res.Outputs["govc"] = fmt.Sprintf("VC size cap exceeded (%d bytes)", len(script))
		return res
	}
	pref := q.prefer
	if q.Cover && timeout > 2 {
		timeout = 2
	}
	quick := 2
	if timeout < quick {
		quick = timeout
	}
	if pref == "" {
		st, out := runSolver(ctx, solvers[0], file, quick)
		res.Outputs[solvers[0].name] = trunc(out, 2000)
		if st == "unsat" && !cross {
			res.Status, res.Solver, res.Seconds = "unsat", solvers[0].name, time.Since(start).Seconds()
			return res
		}
		if st == "sat" && q.Cover {
			res.Status, res.Solver, res.Seconds, res.Model = "sat", solvers[0].name, time.Since(start).Seconds(), out
			return res
		}
		if st == "sat" {
			res.Status, res.Solver, res.Model = "sat", solvers[0].name, out
		}
		if st == "unsat" {
			res.Status, res.Solver = "unsat", solvers[0].name
		}
	}
	type ans struct {
		s      solverSpec
		st, o  string
	}
	ch := make(chan ans, len(solvers))
	var wg sync.WaitGroup
	n := 0
	for i, s := range solvers {
		if i == 0 && pref == "" && (res.Status == "sat" || res.Status == "unsat") {
			continue // already answered
		}
		n++
		wg.Add(1)
		go func(s solverSpec) {
			defer wg.Done()
			st, o := runSolver(ctx, s, file, timeout)
			ch <- ans{s, st, o}
		}(s)
	}
	go func() { wg.Wait(); close(ch) }()
	for a := range ch {
		res.Outputs[a.s.name] = trunc(a.o, 2000)
		switch a.st {
		case "unsat":
			if res.Status == "sat" {
				res.Disagree = true
			}
			res.Status, res.Solver = "unsat", a.s.name
			if !cross {
				cancel()
				res.Seconds = time.Since(start).Seconds()
				return res
			}
		case "sat":
			if res.Status == "unsat" {
				res.Disagree = true
			} else if res.Status != "sat" {
				res.Status, res.Solver, res.Model = "sat", a.s.name, a.o
			}
			if q.Cover {
				cancel()
				res.Seconds = time.Since(start).Seconds()
				return res
			}
		}
	}
	res.Seconds = time.Since(start).Seconds()
	return res
}

// dischargeAll runs all queries with a worker pool.
func dischargeAll(qs []*Query, c *Contracts, dir string, timeout int, cross bool, workers int) {
	os.MkdirAll(dir, 0o755) //nolint:errcheck
	var wg sync.WaitGroup
	ch := make(chan *Query)
	for i := 0; i < workers; i++ {
		wg.Add(1)
		go func() {
			defer wg.Done()
			for q := range ch {
				if q.Goal == "true" && !q.Cover {
					q.Result = &SolveResult{Status: "unsat", Solver: "syntactic", Outputs: map[string]string{}}
					continue
				}
				q.Result = solve(q, c, dir, timeout, cross)
			}
		}()
	}
	for i, q := range qs {
		q.seq = i
		ch <- q
	}
	close(ch)
	wg.Wait()
}
