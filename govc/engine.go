package main

import (
	"fmt"
	"go/constant"
	"go/token"
	"go/types"
	"sort"
	"strings"

	"golang.org/x/tools/go/ssa"
)

type Engine struct {
	prog    *ssa.Program
	fns     map[string]*ssa.Function
	C       *Contracts
	fnIDs   map[string]int
	typeIDs map[string]int
	repoPkg map[string]bool
	siteOrd map[*ssa.Function]map[ssa.Instruction]int
	loopOrd map[*ssa.Function]map[*ssa.BasicBlock]int
	tier    string
}

type Note struct {
	Kind string
	Msg  string
}

type Query struct {
	Name   string
	Props  []string
	Fn     string
	Kind   string
	PC     []string
	Uses   []string
	Goal   string
	Trace  []string
	seq    int
	short  bool
	concrete bool // model-finding mode: concrete definitions instead of uninterpreted functions, no axioms
	prefer string
	Rets   []*Val // ensures queries: the values returned on this path (for replay)
	Post   *State // state at the point of the obligation
	Cover  bool // satisfiable expected (vacuity check): sat/unknown = ok, unsat = vacuous
	Dep    bool // thorough tier: a clause of another property that this property's proof relies on
	Run    *Run
	Result *SolveResult
}

type Run struct {
	eng     *Engine
	fn      *ssa.Function
	ct      *Contract
	name    string
	decls   []string
	declSet map[string]bool
	freshN  int
	verN    int
	cellN   int
	negRef  int
	heap0   map[string]string
	ghost0  map[string]string
	queries []*Query
	assumed map[string]bool // contracts whose ensures were assumed
	notes   []Note
	noteSet map[string]bool
	paths   int
	errs    []string
	entry   *State
	vars    map[string]*Val // parameters by name (entry values)
	safeN   map[string]int
	wantAll bool
	retPaths int
	prop    string
	sitesHit map[string]bool
	needs   map[string]bool
	foreign map[string]string // callee clauses of other properties relied upon in a property-filtered run
	dynFn   *Val
	curRets []*Val
	inDefer int
	kindOrd map[string]map[ssa.Instruction]int
}

type Outcome struct {
	st   *State
	rets []*Val
	fr   *Frame
}

const maxPaths = 2000

func (r *Run) toolErr(format string, a ...interface{}) {
	msg := fmt.Sprintf(format, a...)
	for _, e := range r.errs {
		if e == msg {
			return
		}
	}
	r.errs = append(r.errs, msg)
}

func (r *Run) note(kind, format string, a ...interface{}) {
	msg := fmt.Sprintf(format, a...)
	if r.noteSet[kind+msg] {
		return
	}
	r.noteSet[kind+msg] = true
	r.notes = append(r.notes, Note{kind, msg})
}

func (e *Engine) fnID(name string) string {
	if id, ok := e.fnIDs[name]; ok {
		return fmt.Sprint(id)
	}
	id := 1000 + len(e.fnIDs)
	e.fnIDs[name] = id
	return fmt.Sprint(id)
}

func (e *Engine) typeID(t types.Type) string {
	n := typeName(t)
	if id, ok := e.typeIDs[n]; ok {
		return fmt.Sprint(id)
	}
	id := 1 + len(e.typeIDs)
	e.typeIDs[n] = id
	return fmt.Sprint(id)
}

func fnName(fn *ssa.Function) string { return normName(fn.String()) }

func (e *Engine) inRepo(fn *ssa.Function) bool {
	if fn.Pkg == nil {
		if fn.Parent() != nil {
			return e.inRepo(fn.Parent())
		}
		// methods of instantiated/wrapper functions
		return false
	}
	return e.repoPkg[fn.Pkg.Pkg.Path()]
}

func newRun(e *Engine, fn *ssa.Function, ct *Contract) *Run {
	return &Run{eng: e, fn: fn, ct: ct, name: fnName(fn), declSet: map[string]bool{}, heap0: map[string]string{}, ghost0: map[string]string{},
		assumed: map[string]bool{}, noteSet: map[string]bool{}, safeN: map[string]int{}, sitesHit: map[string]bool{}, needs: map[string]bool{}, foreign: map[string]string{}, kindOrd: map[string]map[ssa.Instruction]int{}}
}

// emit records a proof obligation: pc => goal.
func (r *Run) emit(st *State, name, kind string, props []string, goal string) {
	q := &Query{Name: r.name + "/" + name, Props: props, Fn: r.name, Kind: kind, PC: append([]string(nil), st.pc...), Uses: sortedKeys(st.uses), Goal: goal,
		Trace: append([]string(nil), st.trace...), Run: r, Post: st, Rets: r.curRets}
	r.queries = append(r.queries, q)
}

func (r *Run) safety(fr *Frame, st *State, kind string, instr ssa.Instruction, goal string) {
	if goal == "true" {
		return
	}
	name := fmt.Sprintf("safe:%s@%s", kind, r.kindLabel(kind, instr))
	props := r.ct.Props
	r.emit(st, name, "safety", props, goal)
	st.assume(goal)
}

// kindLabel numbers the instructions that can raise this kind of obligation within their function,
// in source order, so that unrelated edits elsewhere in the function do not rename obligations.
func (r *Run) kindLabel(kind string, instr ssa.Instruction) string {
	fn := instr.Parent()
	key := kind + "|" + fnName(fn)
	m, ok := r.kindOrd[key]
	if !ok {
		m = map[ssa.Instruction]int{}
		n := 0
		for _, b := range fn.Blocks {
			for _, in := range b.Instrs {
				if safetyKinds(in)[kind] {
					m[in] = n
					n++
				}
			}
		}
		r.kindOrd[key] = m
	}
	lab := fmt.Sprintf("#%d", m[instr])
	if fn != r.fn {
		return fnName(fn) + lab
	}
	return lab
}

func safetyKinds(in ssa.Instruction) map[string]bool {
	switch x := in.(type) {
	case *ssa.Slice:
		return map[string]bool{"slice": true}
	case *ssa.IndexAddr, *ssa.Index:
		return map[string]bool{"index": true}
	case *ssa.Lookup:
		return map[string]bool{"index": true}
	case *ssa.BinOp:
		return map[string]bool{"overflow": true, "div": true}
	case *ssa.UnOp:
		_ = x
		return map[string]bool{"nil": true, "overflow": true}
	case *ssa.FieldAddr, *ssa.Store:
		return map[string]bool{"nil": true}
	case *ssa.MakeSlice:
		return map[string]bool{"makeslice": true}
	case *ssa.TypeAssert:
		return map[string]bool{"typeassert": true}
	case *ssa.MapUpdate:
		return map[string]bool{"nilmap": true}
	case *ssa.Panic:
		return map[string]bool{"panic": true}
	}
	return nil
}

// siteLabel gives a stable label for an instruction: function, kind ordinal in source order.
func (r *Run) siteLabel(fr *Frame, instr ssa.Instruction) string {
	fn := instr.Parent()
	ords := r.eng.instrOrdinals(fn)
	lab := fmt.Sprintf("#%d", ords[instr])
	if fn != r.fn {
		return fnName(fn) + lab
	}
	return lab
}

// instrOrdinals numbers all instructions of fn in source order (position, then block order).
func (e *Engine) instrOrdinals(fn *ssa.Function) map[ssa.Instruction]int {
	if m, ok := e.siteOrd[fn]; ok {
		return m
	}
	m := map[ssa.Instruction]int{}
	n := 0
	for _, b := range fn.Blocks {
		for _, in := range b.Instrs {
			m[in] = n
			n++
		}
	}
	e.siteOrd[fn] = m
	return m
}

// callOrdinal returns k such that instr is the k-th call (in source order) of callee `name` in its function.
func (e *Engine) callOrdinal(instr ssa.Instruction, name string) int {
	fn := instr.Parent()
	type site struct {
		pos token.Pos
		seq int
		in  ssa.Instruction
	}
	var sites []site
	seq := 0
	for _, b := range fn.Blocks {
		for _, in := range b.Instrs {
			seq++
			var cc *ssa.CallCommon
			switch x := in.(type) {
			case *ssa.Call:
				cc = &x.Call
			case *ssa.Defer:
				cc = &x.Call
			case *ssa.Go:
				cc = &x.Call
			}
			if cc == nil {
				continue
			}
			if e.calleeName(cc) == name {
				sites = append(sites, site{in.Pos(), seq, in})
			}
		}
	}
	sort.SliceStable(sites, func(i, j int) bool {
		if sites[i].pos != sites[j].pos {
			return sites[i].pos < sites[j].pos
		}
		return sites[i].seq < sites[j].seq
	})
	for k, s := range sites {
		if s.in == instr {
			return k
		}
	}
	return -1
}

func (e *Engine) calleeName(cc *ssa.CallCommon) string {
	if cc.IsInvoke() {
		return typeName(cc.Value.Type()) + "." + cc.Method.Name()
	}
	switch v := cc.Value.(type) {
	case *ssa.Function:
		return fnName(v)
	case *ssa.Builtin:
		return "builtin." + v.Name()
	case *ssa.MakeClosure:
		return fnName(v.Fn.(*ssa.Function))
	}
	return "dyn:" + typeName(cc.Value.Type())
}

// ---- loops ----

func (e *Engine) loopOrdinals(fn *ssa.Function) map[*ssa.BasicBlock]int {
	if m, ok := e.loopOrd[fn]; ok {
		return m
	}
	var heads []*ssa.BasicBlock
	seen := map[*ssa.BasicBlock]bool{}
	for _, b := range fn.Blocks {
		for _, s := range b.Succs {
			if s.Dominates(b) && !seen[s] {
				seen[s] = true
				heads = append(heads, s)
			}
		}
	}
	pos := func(b *ssa.BasicBlock) token.Pos {
		for _, in := range b.Instrs {
			if in.Pos() != token.NoPos {
				return in.Pos()
			}
		}
		// fall back to first successor with a position
		for _, s := range b.Succs {
			for _, in := range s.Instrs {
				if in.Pos() != token.NoPos {
					return in.Pos()
				}
			}
		}
		return token.NoPos
	}
	sort.SliceStable(heads, func(i, j int) bool {
		pi, pj := pos(heads[i]), pos(heads[j])
		if pi != pj {
			return pi < pj
		}
		return heads[i].Index < heads[j].Index
	})
	m := map[*ssa.BasicBlock]int{}
	for i, h := range heads {
		m[h] = i
	}
	e.loopOrd[fn] = m
	return m
}

// loopBlocks returns the natural loop of header h.
func loopBlocks(h *ssa.BasicBlock) map[*ssa.BasicBlock]bool {
	body := map[*ssa.BasicBlock]bool{h: true}
	var work []*ssa.BasicBlock
	for _, p := range h.Preds {
		if h.Dominates(p) {
			if !body[p] {
				body[p] = true
				work = append(work, p)
			}
		}
	}
	for len(work) > 0 {
		b := work[len(work)-1]
		work = work[:len(work)-1]
		for _, p := range b.Preds {
			if !body[p] {
				body[p] = true
				work = append(work, p)
			}
		}
	}
	return body
}

// ---- constants and value lookup ----

func (r *Run) constVal(c *ssa.Const) *Val {
	t := c.Type()
	if c.Value == nil {
		return r.zeroVal(t)
	}
	switch kindOf(t) {
	case KBool:
		if constant.BoolVal(c.Value) {
			return mkScalar(t, "true")
		}
		return mkScalar(t, "false")
	case KInt:
		v := constant.ToInt(c.Value)
		s := v.ExactString()
		if strings.HasPrefix(s, "-") {
			s = "(- " + s[1:] + ")"
		}
		return mkScalar(t, s)
	case KReal:
		f, _ := constant.Float64Val(c.Value)
		s := fmt.Sprintf("%f", f)
		if strings.HasPrefix(s, "-") {
			s = "(- " + s[1:] + ")"
		}
		return mkScalar(t, s)
	case KStr:
		return mkScalar(t, smtStr(constant.StringVal(c.Value)))
	}
	r.note("unmodelled", "constant of type %v", t)
	return r.zeroVal(t)
}

func (r *Run) val(fr *Frame, st *State, v ssa.Value) *Val {
	switch x := v.(type) {
	case *ssa.Const:
		return r.constVal(x)
	case *ssa.Global:
		return &Val{K: KPtr, Ty: x.Type(), P: &Ptr{Kind: PCell, Cell: r.globalCell(st, x), Root: x.Type().Underlying().(*types.Pointer).Elem()}}
	case *ssa.Function:
		return &Val{K: KFunc, Ty: x.Type(), Fn: x, T: r.eng.fnID(fnName(x))}
	case *ssa.Builtin:
		return &Val{K: KFunc, Ty: x.Type(), T: "0"}
	}
	if val, ok := fr.vals[v]; ok {
		return val
	}
	r.toolErr("no value for %s (%T) in %s", v.Name(), v, fnName(fr.fn))
	return r.freshVal(st, v.Type(), "missing")
}

var globalCells = map[*ssa.Global]*Cell{}

// globalCell models a package-level variable as an immutable cell holding a named constant.
func (r *Run) globalCell(st *State, g *ssa.Global) *Cell {
	c, ok := globalCells[g]
	if !ok {
		r.cellN++
		c = &Cell{id: -1 - len(globalCells), name: normName(g.String()), ty: g.Type().Underlying().(*types.Pointer).Elem()}
		globalCells[g] = c
	}
	if _, ok := st.cells[c.id]; !ok {
		st.cells[c.id] = r.globalValue(st, c)
	}
	return c
}

func (r *Run) globalValue(st *State, c *Cell) *Val {
	t := c.ty
	name := "g " + c.name
	switch kindOf(t) {
	case KBool, KInt, KReal, KStr, KPtr, KIface, KFunc, KMap, KChan, KOpaque:
		term := r.declare(name, sortOfKind(kindOf(t)))
		v := mkScalar(t, term)
		if kindOf(t) == KIface || kindOf(t) == KPtr {
			// package-level error values and singletons are initialised (non-nil) and distinct from each other
			id := r.eng.fnID("global:" + c.name)
			st.assume(app("=", term, id))
		}
		return v
	}
	return r.zeroVal(t)
}

// ---- function execution ----

func (r *Run) newCell(fr *Frame, name string, t types.Type) *Cell {
	r.cellN++
	c := &Cell{id: r.cellN, name: name, ty: t, fn: fr.fn}
	return c
}

func (r *Run) execFunc(fn *ssa.Function, st *State, args []*Val, bind []*Val, depth int, top bool, parent ...*Frame) []Outcome {
	if fn.Blocks == nil {
		r.toolErr("no body for %s", fnName(fn))
		return nil
	}
	fr := &Frame{fn: fn, vals: map[ssa.Value]*Val{}, cellsBy: map[string][]*Cell{}, allocs: map[*ssa.Alloc]*Cell{}, depth: depth, top: top, loopOld: map[*ssa.BasicBlock]string{}, loopPre: map[*ssa.BasicBlock]*State{}}
	if len(parent) > 0 {
		fr.parent = parent[0]
	}
	for i, p := range fn.Params {
		if i < len(args) {
			fr.vals[p] = args[i]
		}
	}
	for i, fv := range fn.FreeVars {
		if i < len(bind) {
			fr.vals[fv] = bind[i]
		} else {
			fr.vals[fv] = r.freshVal(st, fv.Type(), "free."+fv.Name())
		}
	}
	return r.execFrom(fr, st, fn.Blocks[0], 0, nil)
}

func (r *Run) enterBlock(fr *Frame, st *State, b, prev *ssa.BasicBlock) bool {
	// loop handling
	isHeader := false
	for _, p := range b.Preds {
		if b.Dominates(p) {
			isHeader = true
		}
	}
	if isHeader {
		ord := r.eng.loopOrdinals(fr.fn)[b]
		var ls *LoopSpec
		ct := r.contractFor(fr.fn)
		if ct != nil {
			ls = ct.Loops[ord]
		}
		back := prev != nil && b.Dominates(prev)
		prefix := fmt.Sprintf("loop%d", ord)
		if fr.fn != r.fn {
			prefix = fnName(fr.fn) + ":" + prefix
		}
		if ls == nil {
			r.toolErr("loop %d of %s has no invariant", ord, fnName(fr.fn))
			return false
		}
		if back {
			for _, inv := range ls.Invariants {
				g := r.evalBool(&Env{r: r, st: st, old: r.entry, pre: fr.loopPre[b], fr: fr, vars: r.varsFor(fr)}, inv.Expr)
				r.emit(st, prefix+"/preserve:"+inv.Label, "loop", propsOr(inv.Props, ctProps(ct)), g)
			}
			if ls.Decreases != nil {
				m := r.evalTerm(&Env{r: r, st: st, old: r.entry, fr: fr, vars: r.varsFor(fr)}, ls.Decreases)
				r.emit(st, prefix+"/decreases", "loop", ctProps(ct), app("and", app("<=", "0", m), app("<", m, fr.loopOld[b])))
			}
			return false
		}
		pre := st.clone()
		fr.loopPre[b] = pre
		for _, inv := range ls.Invariants {
			g := r.evalBool(&Env{r: r, st: st, old: r.entry, pre: pre, fr: fr, vars: r.varsFor(fr)}, inv.Expr)
			r.emit(st, prefix+"/entry:"+inv.Label, "loop", propsOr(inv.Props, ctProps(ct)), g)
		}
		r.havocLoop(fr, st, b)
		for _, inv := range ls.Invariants {
			st.assume(r.evalBool(&Env{r: r, st: st, old: r.entry, pre: pre, fr: fr, vars: r.varsFor(fr)}, inv.Expr))
		}
		for _, as := range ls.Assumes {
			st.assume(r.evalBool(&Env{r: r, st: st, old: r.entry, pre: pre, fr: fr, vars: r.varsFor(fr)}, as.Expr))
			r.note("assumption", "%s loop %d assumes %s: %s", fnName(fr.fn), ord, as.Label, as.Expr)
		}
		if ls.Decreases != nil {
			m := r.evalTerm(&Env{r: r, st: st, old: r.entry, fr: fr, vars: r.varsFor(fr)}, ls.Decreases)
			c := r.fresh("measure", "Int")
			st.assume(app("=", c, m))
			fr.loopOld[b] = c
		}
	}
	// phis
	var phiVals []*Val
	var phis []*ssa.Phi
	for _, in := range b.Instrs {
		phi, ok := in.(*ssa.Phi)
		if !ok {
			break
		}
		idx := -1
		for i, p := range b.Preds {
			if p == prev {
				idx = i
			}
		}
		if idx < 0 {
			r.toolErr("phi without matching predecessor in %s", fnName(fr.fn))
			return false
		}
		phis = append(phis, phi)
		phiVals = append(phiVals, r.val(fr, st, phi.Edges[idx]))
	}
	for i, phi := range phis {
		fr.vals[phi] = phiVals[i]
	}
	return true
}

func ctProps(ct *Contract) []string {
	if ct == nil {
		return nil
	}
	return ct.Props
}

func propsOr(a, b []string) []string {
	if len(a) > 0 {
		return a
	}
	return b
}

func (r *Run) contractFor(fn *ssa.Function) *Contract {
	return r.eng.C.ByName[fnName(fn)]
}

// varsFor returns the contract-visible variables of a frame: for the top frame the entry parameters.
func (r *Run) varsFor(fr *Frame) map[string]*Val {
	if fr.fn == r.fn {
		return r.vars
	}
	// a clause of the function under verification evaluated at an instruction inside one of its helpers or closures (verified
	// inlined): its names are that function's parameters; the helper's own parameters are visible under names it does not use
	m := map[string]*Val{}
	for k, v := range r.vars {
		m[k] = v
	}
	for _, p := range fr.fn.Params {
		if _, top := m[p.Name()]; top {
			continue
		}
		if v, ok := fr.vals[p]; ok {
			m[p.Name()] = v
		}
	}
	return m
}

// havocLoop forgets everything the loop body may modify.
func (r *Run) havocLoop(fr *Frame, st *State, h *ssa.BasicBlock) {
	body := loopBlocks(h)
	mods := &modSet{cells: map[*ssa.Alloc]bool{}, heap: map[string]bool{}, ghost: map[string]bool{}}
	for b := range body {
		r.collectMods(fr.fn, b, mods, 0)
	}
	if ct := r.contractFor(fr.fn); ct != nil {
		// ghost code attached to events (calls, receives) of this function may run in the loop
		for _, g := range ct.Ghosts {
			mods.ghost[g.Ghost] = true
		}
	}
	for a := range mods.cells {
		if c, ok := fr.allocs[a]; ok {
			st.cells[c.id] = r.freshVal(st, c.ty, "loop."+c.name)
		}
	}
	if mods.all {
		for name := range st.heap {
			st.heap[name] = ""
		}
		st.heapGen++
		for _, g := range r.eng.C.Ghosts {
			if !r.eng.C.ReadOnly[g.Name] {
				r.havocGhost(st, g.Name)
			}
		}
		st.hbVer = r.nextVer()
		return
	}
	for name := range mods.heap {
		st.heap[name] = ""
		if name == "Hb" {
			st.hbVer = r.nextVer()
		}
	}
	for name := range st.heap {
		if (mods.heap["H*"] && strings.HasPrefix(name, "H ")) || (mods.heap["S*"] && strings.HasPrefix(name, "S ")) {
			st.heap[name] = ""
		}
	}
	if mods.heap["H*"] || mods.heap["S*"] {
		// arrays not yet touched on this path cannot be told apart: treat all as havocked
		st.heapGen++
	}
	for g := range mods.ghost {
		r.havocGhost(st, g)
	}
}

type modSet struct {
	cells map[*ssa.Alloc]bool
	heap  map[string]bool
	ghost map[string]bool
	all   bool
}

func rootAlloc(v ssa.Value) *ssa.Alloc {
	for {
		switch x := v.(type) {
		case *ssa.Alloc:
			return x
		case *ssa.FieldAddr:
			v = x.X
		case *ssa.IndexAddr:
			v = x.X
		default:
			return nil
		}
	}
}

func (r *Run) collectMods(fn *ssa.Function, b *ssa.BasicBlock, m *modSet, depth int) {
	for _, in := range b.Instrs {
		switch x := in.(type) {
		case *ssa.Store:
			if a := rootAlloc(x.Addr); a != nil {
				m.cells[a] = true
				continue
			}
			r.addrMods(x.Addr, m)
		case *ssa.MapUpdate:
			mt := x.Map.Type().Underlying().(*types.Map)
			inN, lenN := mapArrNames(mt)
			m.heap[inN] = true
			m.heap[lenN] = true
			et := mt.Elem()
			if _, isStruct := et.Underlying().(*types.Struct); isStruct && !isOpaqueNamed(et) {
				for _, lf := range structLeaves(et) {
					m.heap[mapValArr(mt, lf.name)] = true
				}
			} else {
				m.heap[mapValArr(mt, "")] = true
			}
		case *ssa.Call:
			r.callMods(fn, &x.Call, m, depth)
		case *ssa.Defer:
			r.callMods(fn, &x.Call, m, depth)
		case *ssa.Go:
		case *ssa.Select, *ssa.Send:
		}
	}
}

func (r *Run) addrMods(addr ssa.Value, m *modSet) {
	switch x := addr.(type) {
	case *ssa.FieldAddr:
		// heap store through a pointer: which array depends on root/path; be coarse
		root := x.X.Type().Underlying().(*types.Pointer).Elem()
		for _, lf := range structLeaves(root) {
			n := heapArrayName(root, lf.name)
			if lf.slice {
				for _, s := range []string{"#ref", "#off", "#len", "#cap"} {
					m.heap[n+s] = true
				}
			} else {
				m.heap[n] = true
			}
		}
		// nested FieldAddr chains resolve to the outermost root
		r.addrMods(x.X, m)
	case *ssa.IndexAddr:
		if sl, ok := x.X.Type().Underlying().(*types.Slice); ok {
			if isByteSlice(x.X.Type()) {
				m.heap["Hb"] = true
			} else {
				for _, lf := range structLeaves(sl.Elem()) {
					m.heap[sliceArrayName(sl.Elem(), lf.name)] = true
				}
			}
		}
	case *ssa.Alloc, *ssa.Global:
	default:
		// store through an arbitrary pointer value
		if p, ok := addr.Type().Underlying().(*types.Pointer); ok {
			for _, lf := range structLeaves(p.Elem()) {
				m.heap[heapArrayName(p.Elem(), lf.name)] = true
			}
		}
	}
}

func (r *Run) callMods(fn *ssa.Function, cc *ssa.CallCommon, m *modSet, depth int) {
	name := r.eng.calleeName(cc)
	// any pointer-to-local argument may be written by the callee
	for _, a := range cc.Args {
		if al := rootAlloc(a); al != nil {
			m.cells[al] = true
		}
	}
	if cc.IsInvoke() {
		if al := rootAlloc(cc.Value); al != nil {
			m.cells[al] = true
		}
	}
	if strings.HasPrefix(name, "builtin.") {
		if name == "builtin.copy" || name == "builtin.append" {
			m.heap["Hb"] = true
			if len(cc.Args) > 0 {
				if sl, ok := cc.Args[0].Type().Underlying().(*types.Slice); ok && !isByteSlice(cc.Args[0].Type()) {
					for _, lf := range structLeaves(sl.Elem()) {
						m.heap[sliceArrayName(sl.Elem(), lf.name)] = true
					}
				}
			}
		}
		return
	}
	if ct := r.eng.C.ByName[name]; ct != nil && !ct.Inline {
		for _, mod := range ct.Modifies {
			r.modTargets(mod, m)
		}
		return
	}
	if f, ok := cc.Value.(*ssa.Function); ok && r.eng.inRepo(f) && f.Blocks != nil && depth < 4 {
		for _, b := range f.Blocks {
			sub := &modSet{cells: map[*ssa.Alloc]bool{}, heap: m.heap, ghost: m.ghost}
			r.collectMods(f, b, sub, depth+1)
			if sub.all {
				m.all = true
			}
		}
		return
	}
	if mc, ok := cc.Value.(*ssa.MakeClosure); ok {
		f := mc.Fn.(*ssa.Function)
		for _, bnd := range mc.Bindings {
			if al := rootAlloc(bnd); al != nil {
				m.cells[al] = true
			}
		}
		for _, b := range f.Blocks {
			sub := &modSet{cells: map[*ssa.Alloc]bool{}, heap: m.heap, ghost: m.ghost}
			r.collectMods(f, b, sub, depth+1)
			if sub.all {
				m.all = true
			}
		}
		return
	}
	if effectFree(name) {
		return
	}
	m.all = true
}

func (r *Run) modTargets(mod *SX, m *modSet) {
	if mod.IsAtom() {
		if _, ok := r.eng.C.DeclBy["ghost:"+mod.Atom]; ok {
			m.ghost[mod.Atom] = true
			return
		}
	}
	switch mod.Head() {
	case "heap":
		m.heap["H "+mod.List[1].Atom] = true
	case "content":
		m.heap["Hb"] = true
	case "elems":
		// element arrays: coarse
		for k := range m.heap {
			_ = k
		}
		m.heap["S string"] = true
		m.heap["S*"] = true
	case ".":
		m.heap["H*"] = true
	default:
		m.heap["H*"] = true
	}
}

func effectFree(name string) bool {
	for _, p := range []string{"fmt.", "errors.", "strings.", "strconv.", "unicode.", "unicode/utf8.", "math.", "sort.", "path.", "path/filepath.", "(*log.Logger).", "log.", "bytes.", "(*strings.", "(*regexp.Regexp).Match", "regexp.", "time.", "(time.", "(*time.", "encoding/base64.", "(*encoding/base64.", "(encoding/binary.", "(*sync.", "sync.", "os.IsNotExist", "os.LookupEnv", "os.Environ", "os.Getenv", "(io/fs.FileMode)", "(os.FileMode)", "net/url.", "(*net/url.", "encoding/json.Marshal", "cli.NewExitError", "cli.ShowCommandHelp", "(*cli.Context).", "(cli.Args).", "(net.Addr)", "(*net.UnixListener).Addr", "(*net.TCPListener).Addr", "(*net.UnixAddr).String", "net.Addr.String", "net.Listener.Addr", "(*os.ProcessState).String", "error.Error", "io/fs.FileInfo.", "io/fs.DirEntry.", "os.FileInfo.", "(*uitable.Table).", "uitable.", "zxcvbn."} {
		if strings.HasPrefix(name, p) {
			return true
		}
	}
	return false
}

// typeByName resolves "*pkg.T" / "pkg.T" (normalised package names) to a types.Type of the loaded program.
func (e *Engine) typeByName(name string) types.Type {
	ptr := strings.HasPrefix(name, "*")
	n := strings.TrimPrefix(name, "*")
	for _, p := range e.prog.AllPackages() {
		for _, m := range p.Members {
			if tn, ok := m.(*ssa.Type); ok {
				if normName(tn.Type().String()) == n {
					if ptr {
						return types.NewPointer(tn.Type())
					}
					return tn.Type()
				}
			}
		}
	}
	return nil
}
