package main

import (
	"encoding/json"
	"flag"
	"fmt"
	"go/ast"
	"go/constant"
	"go/types"
	"reflect"
	"os"
	"os/exec"
	"path/filepath"
	"regexp"
	"sort"
	"strconv"
	"strings"
	"time"

	"golang.org/x/tools/go/packages"
	"golang.org/x/tools/go/ssa"
	"golang.org/x/tools/go/ssa/ssautil"
)

var (
	flagProp     = flag.String("prop", "", "property id (C01..); empty = every obligation of the selected functions")
	flagTier     = flag.String("tier", "quick", "quick | thorough")
	flagRepo     = flag.String("repo", "/repo", "repository root")
	flagVerif    = flag.String("verif", "/verif", "verification root (contracts/, expected/, evidence/, replays/, known_findings.txt)")
	flagFn       = flag.String("fn", "", "debug: verify only functions whose name contains this")
	flagDump     = flag.Bool("dump", false, "debug: print every query result")
	flagUpdate   = flag.Bool("update-expected", false, "rewrite expected/<prop>.json from this run")
	flagNoEvid   = flag.Bool("no-evidence", false, "do not write evidence (selftest)")
	flagTimeout  = flag.Int("timeout", 0, "per-solver timeout in seconds (default: 10 quick, 60 thorough)")
	flagWork     = flag.String("work", "", "scratch directory for SMT scripts")
	flagListFns  = flag.Bool("list", false, "list functions with bodies and exit")
	flagNoReplay = flag.Bool("no-replay", false, "skip counterexample replay")
)

func loadProgram(repo string) (*Engine, error) {
	cfg := &packages.Config{Mode: packages.LoadAllSyntax, Dir: repo, BuildFlags: []string{"-tags=verif"},
		Env: append(os.Environ(), "GOFLAGS=-mod=mod", "GOPROXY=off", "GOSUMDB=off", "GOTOOLCHAIN=local")}
	pkgs, err := packages.Load(cfg, "./store", "./sasl", "./cmd/whawty-auth")
	if err != nil {
		return nil, err
	}
	bad := false
	packages.Visit(pkgs, nil, func(p *packages.Package) {
		if strings.HasPrefix(p.PkgPath, "github.com/whawty/auth") {
			for _, e := range p.Errors {
				fmt.Fprintf(os.Stderr, "govc: load error: %v\n", e)
				bad = true
			}
		}
	})
	if bad {
		return nil, fmt.Errorf("repository does not type-check")
	}
	prog, _ := ssautil.AllPackages(pkgs, ssa.NaiveForm)
	prog.Build()
	e := &Engine{prog: prog, fns: map[string]*ssa.Function{}, fnIDs: map[string]int{}, typeIDs: map[string]int{}, repoPkg: map[string]bool{},
		siteOrd: map[*ssa.Function]map[ssa.Instruction]int{}, loopOrd: map[*ssa.Function]map[*ssa.BasicBlock]int{}}
	for _, p := range []string{"github.com/whawty/auth/store", "github.com/whawty/auth/sasl", "github.com/whawty/auth/cmd/whawty-auth", "gopkg.in/spreadspace/scryptauth.v2"} {
		e.repoPkg[p] = true
	}
	for fn := range ssautil.AllFunctions(prog) {
		if fn.Synthetic != "" && fn.Blocks == nil {
			continue
		}
		n := fnName(fn)
		if old, dup := e.fns[n]; dup && old.Synthetic == "" {
			continue
		}
		e.fns[n] = fn
	}
	return e, nil
}

type oblig struct {
	Name    string
	Props   []string
	Queries []*Query
	Status  string // discharged refuted undecided
	Solver  string
	Seconds float64
	Dep     bool
}

type finding struct {
	Kind, Prop, Obligation, Text string
}

func loadFindings(path string) []finding {
	b, err := os.ReadFile(path)
	if err != nil {
		return nil
	}
	var out []finding
	for _, ln := range strings.Split(string(b), "\n") {
		ln = strings.TrimSpace(ln)
		if ln == "" || strings.HasPrefix(ln, "#") {
			continue
		}
		f := finding{Text: ln}
		switch {
		case strings.HasPrefix(ln, "finding:"):
			f.Kind = "finding"
		case strings.HasPrefix(ln, "fixed:"):
			f.Kind = "fixed"
		default:
			continue
		}
		for _, w := range strings.Fields(ln) {
			if strings.HasPrefix(w, "property=") {
				f.Prop = strings.TrimPrefix(w, "property=")
			}
			if strings.HasPrefix(w, "obligation=") {
				f.Obligation = strings.TrimPrefix(w, "obligation=")
			}
		}
		out = append(out, f)
	}
	return out
}

// gConformance is the report of tools/conformance.py (thorough tier), nil when it was not run.
var gConformance *conformanceReport

type conformanceReport struct {
	What    string `json:"what"`
	Corpus  map[string]int `json:"corpus"`
	Calls   int    `json:"oracle_calls"`
	Results []struct {
		Kind, Name, Status, Why string
		Instances, Calls        int
		Counterexample          interface{}
	} `json:"results"`
	Error string `json:"error,omitempty"`
}

func runConformance(workDir string) *conformanceReport {
	os.MkdirAll(workDir, 0o755) //nolint:errcheck
	out := filepath.Join(workDir, "conformance.json")
	cmd := exec.Command("python3", filepath.Join(*flagVerif, "tools", "conformance.py"), "--json", out)
	cmd.Env = append(os.Environ(), "GOVC_REPO="+*flagRepo)
	b, err := cmd.CombinedOutput()
	rep := &conformanceReport{}
	if data, e := os.ReadFile(out); e == nil {
		json.Unmarshal(data, rep) //nolint:errcheck
	} else {
		rep.Error = fmt.Sprintf("conformance tool did not produce a report: %v: %s", err, trunc(string(b), 600))
	}
	return rep
}

func pkgNameOf(fn *ssa.Function) string {
	for fn != nil {
		if fn.Pkg != nil {
			return fn.Pkg.Pkg.Name()
		}
		fn = fn.Parent()
	}
	return ""
}

// gWorkDir is the scratch directory of this run (SMT scripts, replay files).
var gWorkDir string

func main() {
	flag.Parse()
	start := time.Now()
	seed := 0
	if s := os.Getenv("VERIF_SEED"); s != "" {
		seed, _ = strconv.Atoi(s)
	}
	tier := *flagTier
	if t := os.Getenv("VERIF_TIER"); t == "quick" || t == "thorough" {
		tier = t
	}
	timeout := *flagTimeout
	if timeout == 0 {
		timeout = 20
		if tier == "thorough" {
			timeout = 60
		}
	}
	eng, err := loadProgram(*flagRepo)
	if err != nil {
		fmt.Fprintf(os.Stderr, "govc: cannot load repository: %v\n", err)
		// A tree that does not build cannot have been a test-passing change; report as tool failure.
		os.Exit(2)
	}
	eng.tier = tier
	if *flagListFns {
		var ns []string
		for n, f := range eng.fns {
			if f.Blocks != nil && eng.inRepo(f) {
				ns = append(ns, n)
			}
		}
		sort.Strings(ns)
		fmt.Println(strings.Join(ns, "\n"))
		return
	}
	C := newContracts()
	if err := C.loadDir(filepath.Join(*flagVerif, "contracts")); err != nil {
		fmt.Fprintf(os.Stderr, "govc: %v\n", err)
		os.Exit(2)
	}
	for _, sub := range []string{"store", "sasl", "cmd/whawty-auth"} {
		p := filepath.Join(*flagRepo, sub, "zz_verif_contracts.go")
		if _, err := os.Stat(p); err == nil {
			if err := C.loadGoContractFile(p); err != nil {
				fmt.Fprintf(os.Stderr, "govc: %v\n", err)
				os.Exit(2)
			}
		}
	}
	eng.C = C
	for _, d := range C.Decls {
		switch d.Kind {
		case "fnconst":
			C.constID[d.Name] = eng.fnID(d.SX.List[2].Atom)
		case "typeconst":
			n := d.SX.List[2].Atom
			id, ok := eng.typeIDs[n]
			if !ok {
				id = 1 + len(eng.typeIDs)
				eng.typeIDs[n] = id
			}
			C.constID[d.Name] = fmt.Sprint(id)
		}
	}
	prop := *flagProp

	// functions that execute a call carrying an "everywhere" clause of this property (directly or through helpers without a contract,
	// which are verified inlined) are targets of the property even if their own contract does not mention it
	everywhereTargets := map[string]bool{}
	if prop != "" {
		var callers map[string]map[string]bool
		for _, ss := range C.Everywhere {
			tagged := false
			for _, cl := range ss.Requires {
				if hasProp(cl.Props, prop) {
					tagged = true
				}
			}
			if !tagged {
				continue
			}
			if callers == nil {
				callers, _ = eng.callGraph()
			}
			seen := map[string]bool{}
			var up func(f string)
			up = func(f string) {
				if seen[f] {
					return
				}
				seen[f] = true
				if ct := C.ByName[f]; ct != nil && ct.Kind == "func" {
					everywhereTargets[f] = true
					return
				}
				for c := range callers[f] {
					up(c)
				}
			}
			for c := range callers[ss.Callee] {
				if fn := eng.fns[c]; fn != nil && (ss.InPkg == "" || pkgNameOf(fn) == ss.InPkg) {
					up(c)
				}
			}
		}
	}

	// select functions
	var targets []*Contract
	var toolErrs []string
	for _, ct := range C.Order {
		if ct.Kind != "func" {
			continue
		}
		fn := eng.fns[ct.Name]
		if fn == nil || fn.Blocks == nil {
			toolErrs = append(toolErrs, fmt.Sprintf("contract names function %s which does not exist (any more)", ct.Name))
			continue
		}
		if ct.NoBody {
			continue
		}
		if *flagFn != "" && !fnMatch(ct.Name) {
			continue
		}
		if prop != "" && !contractMentions(ct, prop) && !everywhereTargets[ct.Name] {
			continue
		}
		targets = append(targets, ct)
	}
	var runs []*Run
	var queries []*Query
	done := map[string]bool{}
	work := append([]*Contract(nil), targets...)
	// thorough tier: the dependency ring. A property-filtered proof assumes every postcondition of every callee, including clauses
	// tagged with other properties only; thorough also discharges those (all obligations of every function transitively assumed).
	ring := tier == "thorough" && prop != "" && *flagFn == ""
	for len(work) > 0 {
		ct := work[0]
		work = work[1:]
		if done[ct.Name] {
			continue
		}
		done[ct.Name] = true
		r := eng.verifyFunc(eng.fns[ct.Name], ct, prop)
		runs = append(runs, r)
		for _, q := range r.queries {
			if prop == "" || hasProp(q.Props, prop) || q.Kind == "callreq" || q.Kind == "cover" {
				queries = append(queries, q)
			} else if ring {
				q.Dep = true
				queries = append(queries, q)
			}
		}
		for _, e := range r.errs {
			toolErrs = append(toolErrs, r.name+": "+e)
		}
		// closure: contracts assumed while verifying must themselves be verified for this property
		for n := range r.assumed {
			if c2 := C.ByName[n]; c2 != nil && !done[n] && !c2.NoBody && (*flagFn == "" || prop != "") && (prop == "" || ring || contractMentions(c2, prop)) {
				if fn := eng.fns[n]; fn != nil && fn.Blocks != nil {
					work = append(work, c2)
				}
			}
		}
	}
	// lemmas used by any query
	lemmaSeen := map[string]bool{}
	var addLemma func(n string)
	addLemma = func(n string) {
		if lemmaSeen[n] {
			return
		}
		lemmaSeen[n] = true
		var d *Decl
		if d = C.DeclBy["lemma:"+n]; d == nil {
			if ax := C.DeclBy["axiom:"+n]; ax != nil {
				for _, u := range append(append([]string{}, ax.Uses...), ax.Needs...) {
					addLemma(u)
				}
			}
			return
		}
		for _, u := range append(append([]string{}, d.Uses...), d.Needs...) {
			addLemma(u)
		}
		q := &Query{Name: "lemma:" + n, Props: d.Props, Kind: "lemma", Uses: d.Uses, Goal: d.Body.String(), prefer: d.By}
		queries = append(queries, q)
	}
	for _, q := range append([]*Query(nil), queries...) {
		for _, u := range q.Uses {
			addLemma(u)
		}
	}
	for _, r := range runs {
		for n := range r.needs {
			addLemma(n)
		}
	}
	if prop != "" {
		for _, d := range C.Decls {
			if d.Kind == "lemma" && hasProp(d.Props, prop) {
				addLemma(d.Name)
			}
		}
	}

	for _, d := range C.Decls {
		if d.Kind != "structural" || *flagFn != "" || (prop != "" && !hasProp(d.Props, prop)) {
			continue
		}
		ok, why := eng.structural(d)
		goal := "true"
		if !ok {
			goal = "false"
			fmt.Fprintf(os.Stderr, "govc: structural obligation %s fails: %s\n", d.Name, why)
		}
		queries = append(queries, &Query{Name: "structural:" + d.Name, Props: d.Props, Kind: "structural", Goal: goal})
	}

	workDir := *flagWork
	if workDir == "" {
		workDir = filepath.Join(*flagVerif, "work", orAll(prop))
	}
	os.RemoveAll(workDir) //nolint:errcheck
	gWorkDir = workDir
	// obligations recorded as known findings are expected not to discharge: give them a short time limit
	for _, f := range loadFindings(filepath.Join(*flagVerif, "known_findings.txt")) {
		if f.Kind == "finding" {
			for _, q := range queries {
				if q.Name == f.Obligation {
					q.short = true
				}
			}
		}
	}
	// thorough tier: bounded conformance tests of the assumed library contracts and axioms run beside the proofs
	confDone := make(chan struct{})
	if ring {
		go func() {
			defer close(confDone)
			gConformance = runConformance(workDir)
		}()
	} else {
		close(confDone)
	}
	dischargeAll(queries, C, workDir, timeout, tier == "thorough", 16)
	<-confDone

	// fold into obligations
	byName := map[string]*oblig{}
	var obls []*oblig
	var vacuous []string
	retProbes, retDead := map[string]int{}, map[string]int{}
	for _, q := range queries {
		if q.Cover {
			if strings.HasSuffix(q.Name, "/cover:return") {
				// vacuous only if every probed return path is unreachable
				retProbes[q.Name]++
				if q.Result.Status == "unsat" {
					retDead[q.Name]++
				}
				continue
			}
			if q.Result.Status == "unsat" {
				vacuous = append(vacuous, q.Name)
			}
			continue
		}
		o := byName[q.Name]
		if o == nil {
			o = &oblig{Name: q.Name, Props: q.Props, Status: "discharged", Dep: q.Dep}
			byName[q.Name] = o
			obls = append(obls, o)
		}
		o.Queries = append(o.Queries, q)
		o.Seconds += q.Result.Seconds
		if q.Result.Outputs["govc"] != "" && strings.HasPrefix(q.Result.Outputs["govc"], "not attempted") {
			if o.Status == "discharged" {
				o.Status = "not-attempted"
			}
			continue
		}
		if o.Status == "not-attempted" && q.Result.Status != "unsat" {
			o.Status = "undecided"
		}
		switch q.Result.Status {
		case "unsat":
			if o.Solver == "" {
				o.Solver = q.Result.Solver
			}
		case "sat":
			o.Status = "refuted"
		default:
			if o.Status != "refuted" {
				o.Status = "undecided"
			}
		}
		if q.Result.Disagree {
			toolErrs = append(toolErrs, "solver disagreement on "+q.Name)
		}
	}
	sort.Slice(obls, func(i, j int) bool { return obls[i].Name < obls[j].Name })
	for n, k := range retProbes {
		if retDead[n] == k {
			vacuous = append(vacuous, n+" (no probed return path is reachable under the contracts assumed along it)")
		}
	}
	sort.Strings(vacuous)

	if *flagDump {
		for n, k := range retProbes {
			fmt.Printf("cover       %d/%d dead %s\n", retDead[n], k, n)
		}
		for _, o := range obls {
			fmt.Printf("%-11s %-10s %6.2fs %s (%d queries)\n", o.Status, o.Solver, o.Seconds, o.Name, len(o.Queries))
			if o.Status != "discharged" {
				for _, q := range o.Queries {
					if q.Result.Status != "unsat" {
						fmt.Printf("      %s -> %s  trace=%v\n", q.Result.File, q.Result.Status, q.Trace)
					}
				}
			}
		}
		for _, r := range runs {
			for _, n := range r.notes {
				fmt.Printf("note %s: [%s] %s\n", r.name, n.Kind, n.Msg)
			}
			fmt.Printf("run %s: %d paths, %d return paths, %d queries\n", r.name, r.paths, r.retPaths, len(r.queries))
		}
	}

	report(eng, prop, tier, seed, start, runs, obls, vacuous, toolErrs, queries)
}

func orAll(p string) string {
	if p == "" {
		return "all"
	}
	return p
}

func contractMentions(ct *Contract, prop string) bool {
	if hasProp(ct.Props, prop) {
		return true
	}
	all := [][]*Clause{ct.Requires, ct.Ensures, ct.CrashInv, ct.FsFrame}
	for _, l := range ct.Loops {
		all = append(all, l.Invariants)
	}
	for _, s := range ct.Sites {
		all = append(all, s.Requires)
	}
	for _, cls := range all {
		for _, cl := range cls {
			if hasProp(cl.Props, prop) {
				return true
			}
		}
	}
	return false
}

func writeJSON(path string, v interface{}) error {
	b, err := json.MarshalIndent(v, "", " ")
	if err != nil {
		return err
	}
	os.MkdirAll(filepath.Dir(path), 0o755) //nolint:errcheck
	return os.WriteFile(path, append(b, '\n'), 0o644)
}

// fnMatch: -fn is a substring, or a regular expression when it contains regexp metacharacters other than ().*
func fnMatch(name string) bool {
	if strings.Contains(name, *flagFn) {
		return true
	}
	if strings.ContainsAny(*flagFn, "|^$") {
		if ok, err := regexp.MatchString(*flagFn, name); err == nil && ok {
			return true
		}
	}
	return false
}

// structural checks facts about the program text that contracts rely on.
func (e *Engine) structural(d *Decl) (bool, string) {
	kind := d.SX.List[1].Atom
	switch kind {
	case "regex-literal":
		// the package-level variable is initialised with regexp.MustCompile(<exactly this literal>)
		gname, lit := d.SX.List[2].Atom, d.SX.List[3].Atom
		for _, fn := range e.fns {
			if fn.Synthetic == "" || fn.Name() != "init" {
				continue
			}
			for _, b := range fn.Blocks {
				for _, in := range b.Instrs {
					st, ok := in.(*ssa.Store)
					if !ok {
						continue
					}
					g, ok := st.Addr.(*ssa.Global)
					if !ok || normName(g.String()) != gname {
						continue
					}
					call, ok := st.Val.(*ssa.Call)
					if !ok || e.calleeName(&call.Call) != "regexp.MustCompile" {
						return false, "initialised by something other than regexp.MustCompile"
					}
					c, ok := call.Call.Args[0].(*ssa.Const)
					if !ok || c.Value == nil {
						return false, "pattern is not a constant"
					}
					got := constant.StringVal(c.Value)
					if got != lit {
						return false, fmt.Sprintf("pattern is %q, contracts assume %q", got, lit)
					}
					return true, ""
				}
			}
		}
		return false, "no initialisation of " + gname + " found"
	}
	if kind == "yaml-tags" {
		// (structural yaml-tags "pkg.T" "Field:key Field2:key2 ..."): the struct's yaml tags are exactly these
		t := e.typeByName(d.SX.List[2].Atom)
		if t == nil {
			return false, "no such type"
		}
		st, ok := t.Underlying().(*types.Struct)
		if !ok {
			return false, "not a struct"
		}
		var got []string
		for i := 0; i < st.NumFields(); i++ {
			tag := reflect.StructTag(st.Tag(i)).Get("yaml")
			got = append(got, st.Field(i).Name()+":"+tag)
		}
		if strings.Join(got, " ") != d.SX.List[3].Atom {
			return false, fmt.Sprintf("fields/tags are %q, contracts assume %q", strings.Join(got, " "), d.SX.List[3].Atom)
		}
		return true, ""
	}
	if kind == "callers-under-contract" {
		// (structural callers-under-contract "<callee>" "<allowed callers, space separated>"): every function of the repository that can
		// reach a call of <callee> does so under verification -- it has a contract, or it is an unexported helper whose callers all do
		// (such helpers are inlined into their verified callers). A function outside that set that calls <callee> -- a new command,
		// handler, goroutine or exported entry point -- would be a path the proofs never look at.
		callee := d.SX.List[2].Atom
		allowed := map[string]bool{}
		for _, a := range strings.Fields(d.SX.List[3].Atom) {
			allowed[a] = true
		}
		callers, addrTaken := e.callGraph()
		if len(callers[callee]) == 0 {
			return false, "nothing calls " + callee + " (contracts out of date?)"
		}
		state := map[string]int{} // 1 = in progress / ok, 2 = bad
		var why string
		var ok func(f string, via string) bool
		ok = func(f, via string) bool {
			if st, seen := state[f]; seen {
				return st == 1
			}
			state[f] = 1
			if allowed[f] {
				return true
			}
			if ct := e.C.ByName[f]; ct != nil {
				return true
			}
			fn := e.fns[f]
			bad := func(msg string) bool {
				state[f] = 2
				if why == "" {
					why = fmt.Sprintf("%s %s and reaches %s (%s) without a contract", f, msg, callee, via)
				}
				return false
			}
			if fn == nil {
				return bad("is unknown")
			}
			if addrTaken[f] {
				return bad("is used as a function value (handler, callback or goroutine body)")
			}
			if fn.Parent() == nil && (ast.IsExported(fn.Name()) || fn.Name() == "main" || fn.Name() == "init") {
				return bad("is an entry point")
			}
			for c := range callers[f] {
				if !ok(c, f+" <- "+via) {
					state[f] = 2
					return false
				}
			}
			return true // dead code when nobody calls it
		}
		for c := range callers[callee] {
			if !ok(c, callee) {
				return false, why
			}
		}
		return true, ""
	}
	return false, "unknown structural check " + kind
}

// callGraph: static callers of every function (calls, go, defer, immediately invoked closures) inside the repository packages,
// and the functions that are used as values.
func (e *Engine) callGraph() (map[string]map[string]bool, map[string]bool) {
	callers := map[string]map[string]bool{}
	addrTaken := map[string]bool{}
	add := func(callee, caller string) {
		if callers[callee] == nil {
			callers[callee] = map[string]bool{}
		}
		callers[callee][caller] = true
	}
	for name, fn := range e.fns {
		if fn.Blocks == nil || !e.inRepo(fn) {
			continue
		}
		for _, b := range fn.Blocks {
			for _, in := range b.Instrs {
				var cc *ssa.CallCommon
				switch x := in.(type) {
				case *ssa.Call:
					cc = &x.Call
				case *ssa.Go:
					cc = &x.Call
				case *ssa.Defer:
					cc = &x.Call
				}
				calleeVal := ssa.Value(nil)
				if cc != nil {
					add(e.calleeName(cc), name)
					if !cc.IsInvoke() {
						calleeVal = cc.Value
					}
				}
				mcIn, _ := in.(*ssa.MakeClosure)
				for _, op := range in.Operands(nil) {
					if op == nil || *op == nil || *op == calleeVal {
						continue
					}
					if mcIn != nil && *op == mcIn.Fn {
						continue // judged below by how the closure value is used
					}
					if v, ok := (*op).(*ssa.Function); ok {
						addrTaken[fnName(v)] = true
					}
				}
				if mc := mcIn; mc != nil {
					if f, ok := mc.Fn.(*ssa.Function); ok {
						if rs := mc.Referrers(); rs != nil && len(*rs) == 1 {
							if ci, isCall := (*rs)[0].(ssa.CallInstruction); isCall && ci.Common().Value == ssa.Value(mc) {
								continue
							}
						}
						addrTaken[fnName(f)] = true
					}
				}
			}
		}
	}
	return callers, addrTaken
}
