package main

import (
	"fmt"
	"go/types"
	"strings"

	"golang.org/x/tools/go/ssa"
)

type Kind int

const (
	KBool Kind = iota
	KInt
	KReal
	KStr
	KPtr
	KSlice
	KStruct
	KTuple
	KIface
	KFunc
	KMap
	KChan
	KArray // Go-side fixed array (elements in Elems)
	KOpaque
	KUnit
)

const (
	PHeap = iota
	PCell
	PElem
)

type Cell struct {
	id   int
	name string
	ty   types.Type
	fn   *ssa.Function
}

type Ptr struct {
	Kind int
	T    string // heap reference term (PHeap) / slice reference (PElem)
	Idx  string // PElem: absolute element index
	Cell *Cell
	Root types.Type // type of the object the path starts at
	Path []int
	Fam  string // PElem: element-array family of the slice ("" or "#va" for call-argument temporaries)
}

type Val struct {
	K  Kind
	Ty types.Type
	T  string // scalar term; for KPtr(PHeap,no path), KIface, KFunc, KMap, KChan the Int identity

	// slice
	Ref, Off, Len, Cap string
	Content            string // cached content term ([]byte only)
	ContentVer         int
	FromCell           *Cell // slice of a Go-side array cell (varargs)
	Fam                string // element-array family ("#va": temporaries built for variadic calls live in their own arrays)

	Elems []*Val // struct fields, tuple elements, array elements

	P *Ptr // KPtr

	Box *Val // KIface: Go-side boxed value when known

	Fn   *ssa.Function // KFunc: statically known function
	Bind []*Val        // closure bindings
}

func (v *Val) String() string {
	if v == nil {
		return "<nilval>"
	}
	switch v.K {
	case KSlice:
		return fmt.Sprintf("slice(%s,%s,%s)", v.Ref, v.Off, v.Len)
	case KStruct, KTuple, KArray:
		var p []string
		for _, e := range v.Elems {
			p = append(p, e.String())
		}
		return "{" + strings.Join(p, ", ") + "}"
	case KPtr:
		if v.P.Kind == PCell {
			return fmt.Sprintf("&cell%d(%s)%v", v.P.Cell.id, v.P.Cell.name, v.P.Path)
		}
		if v.P.Kind == PElem {
			return fmt.Sprintf("&elem(%s,%s)%v", v.P.T, v.P.Idx, v.P.Path)
		}
		return fmt.Sprintf("&heap(%s)%v", v.P.T, v.P.Path)
	}
	return v.T
}

func isTimeTime(t types.Type) bool {
	if n, ok := t.(*types.Named); ok {
		o := n.Obj()
		return o.Pkg() != nil && o.Pkg().Path() == "time" && o.Name() == "Time"
	}
	return false
}

// opaqueStruct lists struct types of other packages that are treated as one opaque Int value.
func isOpaqueNamed(t types.Type) bool {
	n, ok := t.(*types.Named)
	if !ok {
		return false
	}
	o := n.Obj()
	if o.Pkg() == nil {
		return false
	}
	p := o.Pkg().Path()
	if p == "time" && o.Name() == "Time" {
		return true
	}
	if _, isStruct := n.Underlying().(*types.Struct); isStruct {
		if strings.HasPrefix(p, "github.com/whawty/auth") || p == "gopkg.in/spreadspace/scryptauth.v2" || p == "github.com/nbutton23/zxcvbn-go/scoring" {
			return false
		}
		return true // struct of a library package: opaque
	}
	return false
}

func kindOf(t types.Type) Kind {
	if isOpaqueNamed(t) {
		return KInt
	}
	switch u := t.Underlying().(type) {
	case *types.Basic:
		switch {
		case u.Info()&types.IsBoolean != 0:
			return KBool
		case u.Info()&types.IsInteger != 0:
			return KInt
		case u.Info()&types.IsFloat != 0:
			return KReal
		case u.Info()&types.IsString != 0:
			return KStr
		case u.Kind() == types.UnsafePointer:
			return KInt
		case u.Kind() == types.UntypedNil:
			return KInt
		}
		return KOpaque
	case *types.Pointer:
		return KPtr
	case *types.Slice:
		return KSlice
	case *types.Struct:
		return KStruct
	case *types.Tuple:
		return KTuple
	case *types.Interface:
		return KIface
	case *types.Signature:
		return KFunc
	case *types.Map:
		return KMap
	case *types.Chan:
		return KChan
	case *types.Array:
		return KArray
	}
	return KOpaque
}

func sortOfKind(k Kind) string {
	switch k {
	case KBool:
		return "Bool"
	case KReal:
		return "Real"
	case KStr:
		return "String"
	}
	return "Int"
}

// scalarSort returns the SMT sort for a Go type stored as one scalar, or "" for composite kinds.
func scalarSort(t types.Type) string {
	switch kindOf(t) {
	case KBool:
		return "Bool"
	case KInt, KPtr, KIface, KFunc, KMap, KChan, KOpaque:
		return "Int"
	case KReal:
		return "Real"
	case KStr:
		return "String"
	}
	return ""
}

func intRange(t types.Type) (lo, hi string, ok bool) {
	b, isB := t.Underlying().(*types.Basic)
	if !isB || isOpaqueNamed(t) {
		return "", "", false
	}
	switch b.Kind() {
	case types.Int8:
		return "(- 128)", "127", true
	case types.Int16:
		return "(- 32768)", "32767", true
	case types.Int32:
		return "(- 2147483648)", "2147483647", true
	case types.Int, types.Int64:
		return "(- 9223372036854775808)", "9223372036854775807", true
	case types.Uint8:
		return "0", "255", true
	case types.Uint16:
		return "0", "65535", true
	case types.Uint32:
		return "0", "4294967295", true
	case types.Uint, types.Uint64, types.Uintptr:
		return "0", "18446744073709551615", true
	}
	return "", "", false
}

func intModulus(t types.Type) (mod string, signed bool, ok bool) {
	b, isB := t.Underlying().(*types.Basic)
	if !isB {
		return "", false, false
	}
	switch b.Kind() {
	case types.Int8:
		return "256", true, true
	case types.Int16:
		return "65536", true, true
	case types.Int32:
		return "4294967296", true, true
	case types.Int, types.Int64:
		return "18446744073709551616", true, true
	case types.Uint8:
		return "256", false, true
	case types.Uint16:
		return "65536", false, true
	case types.Uint32:
		return "4294967296", false, true
	case types.Uint, types.Uint64, types.Uintptr:
		return "18446744073709551616", false, true
	}
	return "", false, false
}

func typeName(t types.Type) string {
	return normName(types.TypeString(unalias(t), nil))
}

// unalias resolves type aliases (os.FileInfo = fs.FileInfo, any = interface{}) at the top level and inside
// pointers and slices, so that contract names do not depend on which spelling the source used.
func unalias(t types.Type) types.Type {
	t = types.Unalias(t)
	switch u := t.(type) {
	case *types.Pointer:
		if e := unalias(u.Elem()); e != u.Elem() {
			return types.NewPointer(e)
		}
	case *types.Slice:
		if e := unalias(u.Elem()); e != u.Elem() {
			return types.NewSlice(e)
		}
	}
	return t
}

func normName(s string) string {
	s = strings.ReplaceAll(s, "github.com/whawty/auth/cmd/whawty-auth", "main")
	s = strings.ReplaceAll(s, "github.com/whawty/auth/", "")
	s = strings.ReplaceAll(s, "gopkg.in/spreadspace/scryptauth.v2", "scryptauth")
	s = strings.ReplaceAll(s, "golang.org/x/crypto/", "")
	s = strings.ReplaceAll(s, "github.com/nbutton23/zxcvbn-go/scoring", "scoring")
	s = strings.ReplaceAll(s, "github.com/nbutton23/zxcvbn-go", "zxcvbn")
	s = strings.ReplaceAll(s, "github.com/urfave/cli", "cli")
	s = strings.ReplaceAll(s, "github.com/glauth/ldap", "ldap")
	s = strings.ReplaceAll(s, "gopkg.in/yaml.v3", "yaml")
	return s
}

// leaf describes one scalar (or slice-typed) location inside a struct type.
type leaf struct {
	path  []int
	name  string // dotted field names
	ty    types.Type
	slice bool
}

func structLeaves(t types.Type) []leaf {
	var out []leaf
	var walk func(t types.Type, path []int, name string)
	walk = func(t types.Type, path []int, name string) {
		if st, ok := t.Underlying().(*types.Struct); ok && !isOpaqueNamed(t) {
			for i := 0; i < st.NumFields(); i++ {
				f := st.Field(i)
				n := f.Name()
				if name != "" {
					n = name + "." + n
				}
				walk(f.Type(), append(append([]int{}, path...), i), n)
			}
			return
		}
		_, isSlice := t.Underlying().(*types.Slice)
		out = append(out, leaf{path: path, name: name, ty: t, slice: isSlice})
	}
	walk(t, nil, "")
	return out
}

func fieldType(root types.Type, path []int) types.Type {
	t := root
	for _, i := range path {
		if at, ok := t.Underlying().(*types.Array); ok {
			t = at.Elem()
			continue
		}
		st := t.Underlying().(*types.Struct)
		t = st.Field(i).Type()
	}
	return t
}

func fieldNames(root types.Type, path []int) string {
	t := root
	var names []string
	for _, i := range path {
		if at, ok := t.Underlying().(*types.Array); ok {
			names = append(names, fmt.Sprint(i))
			t = at.Elem()
			continue
		}
		st := t.Underlying().(*types.Struct)
		names = append(names, st.Field(i).Name())
		t = st.Field(i).Type()
	}
	return strings.Join(names, ".")
}

// heapArrayName is the SMT symbol of the heap array holding field `name` of struct type root.
func heapArrayName(root types.Type, name string) string {
	if name == "" {
		return "H " + typeName(root)
	}
	return "H " + typeName(root) + "." + name
}

func sliceArrayName(elem types.Type, name string) string {
	if name == "" {
		return "S " + typeName(elem)
	}
	return "S " + typeName(elem) + "." + name
}

func zeroTerm(t types.Type) string {
	switch kindOf(t) {
	case KBool:
		return "false"
	case KReal:
		return "0.0"
	case KStr:
		return `""`
	}
	return "0"
}
