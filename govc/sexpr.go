package main

import (
	"fmt"
	"strings"
)

// SX is an s-expression: either an atom (Atom != "" or IsStr) or a list.
type SX struct {
	Atom  string
	IsStr bool // atom is a string literal (Atom holds the raw, unescaped Go string)
	List  []*SX
	Line  int
}

func (s *SX) IsAtom() bool { return s.List == nil && (s.Atom != "" || s.IsStr) }
func (s *SX) IsList() bool { return !s.IsAtom() }
func (s *SX) Head() string {
	if s.IsList() && len(s.List) > 0 && s.List[0].IsAtom() && !s.List[0].IsStr {
		return s.List[0].Atom
	}
	return ""
}

func (s *SX) String() string {
	if s == nil {
		return "<nil>"
	}
	if s.IsStr {
		return smtStr(s.Atom)
	}
	if s.IsAtom() {
		return s.Atom
	}
	parts := make([]string, len(s.List))
	for i, e := range s.List {
		parts[i] = e.String()
	}
	return "(" + strings.Join(parts, " ") + ")"
}

type sxParser struct {
	src  string
	pos  int
	line int
	file string
}

func (p *sxParser) errf(format string, a ...interface{}) error {
	return fmt.Errorf("%s:%d: %s", p.file, p.line, fmt.Sprintf(format, a...))
}

func (p *sxParser) skip() {
	for p.pos < len(p.src) {
		c := p.src[p.pos]
		if c == '\n' {
			p.line++
			p.pos++
		} else if c == ' ' || c == '\t' || c == '\r' {
			p.pos++
		} else if c == ';' {
			for p.pos < len(p.src) && p.src[p.pos] != '\n' {
				p.pos++
			}
		} else {
			return
		}
	}
}

func (p *sxParser) parse() (*SX, error) {
	p.skip()
	if p.pos >= len(p.src) {
		return nil, nil
	}
	c := p.src[p.pos]
	switch {
	case c == '(':
		line := p.line
		p.pos++
		lst := &SX{List: []*SX{}, Line: line}
		for {
			p.skip()
			if p.pos >= len(p.src) {
				return nil, p.errf("unterminated list starting at line %d", line)
			}
			if p.src[p.pos] == ')' {
				p.pos++
				return lst, nil
			}
			e, err := p.parse()
			if err != nil {
				return nil, err
			}
			lst.List = append(lst.List, e)
		}
	case c == ')':
		return nil, p.errf("unexpected )")
	case c == '"':
		line := p.line
		p.pos++
		var sb strings.Builder
		for {
			if p.pos >= len(p.src) {
				return nil, p.errf("unterminated string")
			}
			ch := p.src[p.pos]
			if ch == '\\' && p.pos+1 < len(p.src) {
				n := p.src[p.pos+1]
				switch n {
				case 'n':
					sb.WriteByte('\n')
				case 't':
					sb.WriteByte('\t')
				case 'r':
					sb.WriteByte('\r')
				case '0':
					sb.WriteByte(0)
				case '\\':
					sb.WriteByte('\\')
				case '"':
					sb.WriteByte('"')
				case 'u':
					// \u{hh}: SMT-LIB escape for one byte
					if p.pos+2 < len(p.src) && p.src[p.pos+2] == '{' {
						end := strings.IndexByte(p.src[p.pos:], '}')
						if end > 0 {
							var code int
							fmt.Sscanf(p.src[p.pos+3:p.pos+end], "%x", &code)
							sb.WriteByte(byte(code))
							p.pos += end + 1
							continue
						}
					}
					sb.WriteByte('\\')
					sb.WriteByte(n)
				default:
					sb.WriteByte('\\')
					sb.WriteByte(n)
				}
				p.pos += 2
				continue
			}
			if ch == '"' {
				if p.pos+1 < len(p.src) && p.src[p.pos+1] == '"' {
					sb.WriteByte('"') // SMT-LIB escapes a quote inside a literal by doubling it
					p.pos += 2
					continue
				}
				p.pos++
				break
			}
			if ch == '\n' {
				p.line++
			}
			sb.WriteByte(ch)
			p.pos++
		}
		return &SX{Atom: sb.String(), IsStr: true, Line: line}, nil
	case c == '|':
		start := p.pos
		p.pos++
		for p.pos < len(p.src) && p.src[p.pos] != '|' {
			p.pos++
		}
		p.pos++
		return &SX{Atom: p.src[start:p.pos], Line: p.line}, nil
	default:
		start := p.pos
		for p.pos < len(p.src) {
			ch := p.src[p.pos]
			if ch == ' ' || ch == '\t' || ch == '\n' || ch == '\r' || ch == '(' || ch == ')' || ch == ';' {
				break
			}
			p.pos++
		}
		return &SX{Atom: p.src[start:p.pos], Line: p.line}, nil
	}
}

func parseAll(file, src string, startLine int) ([]*SX, error) {
	p := &sxParser{src: src, file: file, line: startLine}
	var out []*SX
	for {
		e, err := p.parse()
		if err != nil {
			return nil, err
		}
		if e == nil {
			return out, nil
		}
		out = append(out, e)
	}
}

// smtStr renders a Go byte string as an SMT-LIB 2.6 string literal.
func smtStr(s string) string {
	var sb strings.Builder
	sb.WriteByte('"')
	for i := 0; i < len(s); i++ {
		c := s[i]
		switch {
		case c == '"':
			sb.WriteString(`""`)
		case c == '\\':
			sb.WriteString(`\u{5c}`)
		case c >= 0x20 && c < 0x7f:
			sb.WriteByte(c)
		default:
			fmt.Fprintf(&sb, `\u{%x}`, c)
		}
	}
	sb.WriteByte('"')
	return sb.String()
}

func sym(s string) string {
	for i := 0; i < len(s); i++ {
		c := s[i]
		if !(c >= 'a' && c <= 'z' || c >= 'A' && c <= 'Z' || c >= '0' && c <= '9' || c == '_' || c == '.' || c == '!' || c == '$' || c == '-') {
			return "|" + strings.ReplaceAll(s, "|", "!") + "|"
		}
	}
	if s == "" || (s[0] >= '0' && s[0] <= '9') || s[0] == '-' {
		return "|" + s + "|"
	}
	return s
}

func app(op string, args ...string) string {
	return "(" + op + " " + strings.Join(args, " ") + ")"
}

func and(args ...string) string {
	var xs []string
	for _, a := range args {
		if a == "true" || a == "" {
			continue
		}
		if a == "false" {
			return "false"
		}
		xs = append(xs, a)
	}
	if len(xs) == 0 {
		return "true"
	}
	if len(xs) == 1 {
		return xs[0]
	}
	return app("and", xs...)
}

func not(a string) string {
	if a == "true" {
		return "false"
	}
	if a == "false" {
		return "true"
	}
	if strings.HasPrefix(a, "(not ") && balancedTail(a[5:len(a)-1]) {
		return a[5 : len(a)-1]
	}
	return "(not " + a + ")"
}

func balancedTail(s string) bool {
	d := 0
	inStr := false
	for i := 0; i < len(s); i++ {
		c := s[i]
		if c == '"' {
			inStr = !inStr
		}
		if inStr {
			continue
		}
		if c == '(' {
			d++
		} else if c == ')' {
			d--
			if d < 0 {
				return false
			}
			if d == 0 && i != len(s)-1 {
				return false
			}
		} else if d == 0 && (c == ' ') {
			return false
		}
	}
	return d == 0
}

func implies(a, b string) string {
	if a == "true" {
		return b
	}
	return app("=>", a, b)
}

func itoa(n int64) string {
	if n < 0 {
		return fmt.Sprintf("(- %d)", -n)
	}
	return fmt.Sprintf("%d", n)
}
