package main

import (
	"fmt"
	"os"
	"strings"

	"golang.org/x/tools/go/packages"
	"golang.org/x/tools/go/ssa"
	"golang.org/x/tools/go/ssa/ssautil"
)

func main() {
	cfg := &packages.Config{Mode: packages.LoadAllSyntax, Dir: "/repo", BuildFlags: []string{"-tags=verif"}, Env: append(os.Environ(), "GOFLAGS=-mod=mod", "GOPROXY=off", "GOSUMDB=off", "GOTOOLCHAIN=local")}
	pkgs, err := packages.Load(cfg, "./store", "./sasl", "./cmd/whawty-auth")
	if err != nil {
		panic(err)
	}
	prog, _ := ssautil.AllPackages(pkgs, ssa.NaiveForm)
	prog.Build()
	for fn := range ssautil.AllFunctions(prog) {
		for _, w := range os.Args[1:] {
			if strings.Contains(fn.String(), w) {
				fmt.Println("=====", fn.String())
				fn.WriteTo(os.Stdout)
			}
		}
	}
}
