#!/bin/sh
# Builds the verifier from the vendored sources (offline).
set -e
cd /verif/govc
GOFLAGS=-mod=vendor GOPROXY=off GOSUMDB=off GOTOOLCHAIN=local CGO_ENABLED=0 go build -o /verif/bin/govc .
