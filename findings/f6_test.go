package store

import (
	"os"
	"syscall"
	"testing"
)

func TestF6ErrorAfterRename(t *testing.T) {
	root := t.TempDir()
	d := NewDir(root)
	h, _ := NewArgon2IDHasher(&Argon2IDParams{Time: 1, Memory: 8, Threads: 1, Length: 16})
	d.Params[1] = h
	d.Default = 1
	if err := d.AddUser("bob", "old-secret", false); err != nil {
		t.Fatal(err)
	}
	ents, _ := os.ReadDir("/proc/self/fd")
	var lim, saved syscall.Rlimit
	syscall.Getrlimit(syscall.RLIMIT_NOFILE, &saved)
	lim = saved
	lim.Cur = uint64(len(ents)) + 1 // room for exactly two more descriptors: the hash file and the temp file
	syscall.Setrlimit(syscall.RLIMIT_NOFILE, &lim)
	err := d.UpdateUser("bob", "new-secret")
	syscall.Setrlimit(syscall.RLIMIT_NOFILE, &saved)
	t.Logf("UpdateUser under descriptor exhaustion: %v", err)
	if err == nil {
		t.Skip("no failure injected")
	}
	okNew, _, _, _, _ := d.Authenticate("bob", "new-secret")
	okOld, _, _, _, _ := d.Authenticate("bob", "old-secret")
	t.Logf("old password works: %v, new password works: %v", okOld, okNew)
	if okNew || !okOld {
		t.Errorf("update reported failure (%v) but the password was changed", err)
	}
}
