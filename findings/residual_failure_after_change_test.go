package store

import (
	"os"
	"path/filepath"
	"testing"
)

func mk(t *testing.T, root string) *Dir {
	d := NewDir(root)
	h, _ := NewArgon2IDHasher(&Argon2IDParams{Time: 1, Memory: 8, Threads: 1, Length: 16})
	d.Params[1] = h
	d.Default = 1
	return d
}

// run under: strace -f -e trace=fsync -e inject=fsync:error=EIO:when=4 (the 4th fsync is the directory fsync of the update)
func TestK1DirFsyncFails(t *testing.T) {
	root := t.TempDir()
	d := mk(t, root)
	if err := d.AddUser("bob", "old-secret", false); err != nil { // fsync #1 (temp file), #2 (directory)
		t.Fatal(err)
	}
	err := d.UpdateUser("bob", "new-secret") // fsync #3 (temp file), #4 (directory)
	t.Logf("UpdateUser: %v", err)
	if err == nil {
		t.Skip("no failure injected")
	}
	okNew, _, _, _, _ := d.Authenticate("bob", "new-secret")
	okOld, _, _, _, _ := d.Authenticate("bob", "old-secret")
	t.Logf("old password works: %v, new password works: %v", okOld, okNew)
	if okNew || !okOld {
		t.Errorf("update reported failure (%v) but the password was changed", err)
	}
}

// run under: strace -f -e trace=unlinkat,unlink -e inject=unlinkat,unlink:error=EIO
func TestK2CleanupFails(t *testing.T) {
	root := t.TempDir()
	d := mk(t, root)
	os.WriteFile(filepath.Join(root, ".tmp"), []byte("x"), 0600)
	err := d.AddUser("bob", "secret", false)
	t.Logf("AddUser: %v", err)
	if _, serr := os.Stat(filepath.Join(root, "bob.user")); serr == nil {
		t.Errorf("failed AddUser (%v) left bob.user behind", err)
	}
}
