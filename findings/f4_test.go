package store

import (
	"os"
	"path/filepath"
	"testing"
)

func TestF4AddResidue(t *testing.T) {
	root := t.TempDir()
	d := NewDir(root)
	h, _ := NewArgon2IDHasher(&Argon2IDParams{Time: 1, Memory: 8, Threads: 1, Length: 16})
	d.Params[1] = h
	d.Default = 1
	// make the work area unusable: .tmp is a regular file
	os.WriteFile(filepath.Join(root, ".tmp"), []byte("x"), 0600)
	err := d.AddUser("bob", "secret", false)
	t.Logf("AddUser: %v", err)
	if err == nil {
		t.Fatal("expected failure")
	}
	if _, serr := os.Stat(filepath.Join(root, "bob.user")); serr == nil {
		t.Errorf("failed AddUser left bob.user behind")
	}
}
