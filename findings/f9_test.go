package main

import (
	"bytes"
	"net/http"
	"net/http/httptest"
	"testing"
	"time"
)

// F9 (C06/C07): a session token whose nonce part does not decode to exactly 12 bytes makes crypto/cipher's GCM panic
// ("incorrect nonce length given to GCM") inside webSessionFactory.openToken: the request is not answered with a
// non-success status, the handler goroutine dies (net/http recovers and drops the connection).
func TestF9ShortNonceIsRejectedNotPanicking(t *testing.T) {
	w, err := NewWebSessionFactory(600 * time.Second)
	if err != nil {
		t.Fatal(err)
	}
	for _, session := range []string{"QUFB:QUFBQUFBQUFBQUFBQUFBQUFBQUFB", ":QUFB", "QUFBQUFBQUFBQUFBQUFBQUFB:QUFB"} {
		func() {
			defer func() {
				if p := recover(); p != nil {
					t.Errorf("Check(%q) panicked: %v", session, p)
				}
			}()
			status, _, _, _ := w.Check(session)
			if status == http.StatusOK {
				t.Errorf("Check(%q) accepted", session)
			}
		}()
	}
	// through the HTTP API: every request must get a non-success status
	rec := httptest.NewRecorder()
	req := httptest.NewRequest("POST", "/api/list", bytes.NewBufferString(`{"session":"QUFB:QUFBQUFBQUFBQUFBQUFBQUFBQUFB"}`))
	func() {
		defer func() {
			if p := recover(); p != nil {
				t.Errorf("handleWebList panicked: %v", p)
			}
		}()
		handleWebList(nil, w, rec, req)
		if rec.Code == http.StatusOK {
			t.Errorf("list answered 200")
		}
	}()
}
