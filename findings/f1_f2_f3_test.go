package store

import (
	"os"
	"path/filepath"
	"testing"
)

func mkStore(t *testing.T, base string) *Dir {
	d := NewDir(base)
	h, err := NewArgon2IDHasher(&Argon2IDParams{Time: 1, Memory: 8, Threads: 1, Length: 16})
	if err != nil {
		t.Fatal(err)
	}
	d.Params[1] = h
	d.Default = 1
	return d
}

func TestF1Traversal(t *testing.T) {
	root := t.TempDir()
	os.MkdirAll(filepath.Join(root, "a"), 0700)
	os.MkdirAll(filepath.Join(root, "b"), 0700)
	a, b := mkStore(t, filepath.Join(root, "a")), mkStore(t, filepath.Join(root, "b"))
	if err := b.AddUser("alice", "secret", false); err != nil {
		t.Fatal(err)
	}
	ok, _, _, _, err := a.Authenticate("../b/alice", "secret")
	t.Logf("authenticate ../b/alice through store a: ok=%v err=%v", ok, err)
	if ok {
		t.Errorf("invalid user name authenticated against a sibling store")
	}
	a.RemoveUser("../b/alice")
	if ex, _, _ := b.Exists("alice"); !ex {
		t.Errorf("RemoveUser with an invalid name deleted a file outside the base dir")
	}
}

func TestF2CheckInvalidAdmin(t *testing.T) {
	root := t.TempDir()
	d := mkStore(t, root)
	if err := d.AddUser("good", "secret", true); err != nil {
		t.Fatal(err)
	}
	os.Rename(filepath.Join(root, "good.admin"), filepath.Join(root, "-bad.admin"))
	err := d.Check()
	t.Logf("Check with only -bad.admin: %v", err)
	if err == nil {
		t.Errorf("a file with an invalid user name counted as the required administrator")
	}
}

func TestF3ArgonZeroTime(t *testing.T) {
	defer func() {
		if r := recover(); r != nil {
			t.Errorf("accepted parameter set crashes: %v", r)
		}
	}()
	h, err := NewArgon2IDHasher(&Argon2IDParams{Time: 0, Memory: 8, Threads: 1, Length: 16})
	if err != nil {
		t.Logf("rejected: %v", err)
		return
	}
	_, err = h.Generate("pw")
	t.Logf("generate: %v", err)
}
