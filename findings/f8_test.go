package store

// F8 (C18): an argon2id parameter set without (or with zero) `length` was accepted by the loader and made the agent panic on first
// use. TestF8ArgonZeroLength fails on 4a1f9c8 and earlier (panic), passes after the fix 88f798c (the set is rejected).
// TestF8LibraryPanicsOnLength0 documents the library behaviour the assumed contract of argon2.IDKey had wrong (it always "fails").

import (
	"testing"

	"golang.org/x/crypto/argon2"
)

func TestF8LibraryPanicsOnLength0(t *testing.T) {
	defer func() {
		if p := recover(); p != nil {
			t.Fatalf("panic: %v", p)
		}
	}()
	k := argon2.IDKey([]byte("pw"), []byte("saltsalt"), 1, 64, 1, 0)
	t.Logf("len=%d nil=%v", len(k), k == nil)
}

func TestF8ArgonZeroLength(t *testing.T) {
	defer func() {
		if p := recover(); p != nil {
			t.Fatalf("panic: %v", p)
		}
	}()
	h, err := NewArgon2IDHasher(&Argon2IDParams{Time: 1, Memory: 64, Threads: 1, Length: 0})
	if err != nil {
		t.Logf("rejected: %v", err)
		return
	}
	s, err := h.Generate("pw")
	t.Logf("generate: %q %v", s, err)
}
