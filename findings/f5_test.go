package sasl

import (
	"net"
	"strings"
	"testing"
)

func TestF5LongMessage(t *testing.T) {
	for _, n := range []int{253, 254, 70000} {
		c1, c2 := net.Pipe()
		s := &Server{cb: func(l, p, sv, r string) (bool, string, error) { return true, strings.Repeat("m", n), nil }}
		go s.handleConnection(c1)
		req := &Request{"u", "p", "", ""}
		go req.Encode(c2)
		resp := &Response{}
		err := resp.Decode(c2)
		t.Logf("msglen=%d: decode err=%v result=%v", n, err, resp.Result)
		if err != nil || !resp.Result {
			t.Errorf("msglen=%d: approved request is not decodable as OK by the bundled client: %v", n, err)
		}
		c2.Close()
	}
}
