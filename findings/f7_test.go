package store

import "testing"

// run under strace -f -e trace=renameat,rename,unlinkat,unlink,fsync: the trace must show an fsync after the rename / unlinks
func TestF7Durability(t *testing.T) {
	root := t.TempDir()
	d := NewDir(root)
	h, _ := NewArgon2IDHasher(&Argon2IDParams{Time: 1, Memory: 8, Threads: 1, Length: 16})
	d.Params[1] = h
	d.Default = 1
	if err := d.AddUser("bob", "secret", false); err != nil {
		t.Fatal(err)
	}
	println("=== SETADMIN")
	if err := d.SetAdmin("bob", true); err != nil {
		t.Fatal(err)
	}
	println("=== REMOVE")
	d.RemoveUser("bob")
	println("=== DONE")
}
