#!/bin/bash
# usage: seedcheck.sh <ID> <workdir of the sub-agent>  -- confirms a seeded change and runs the checks against it
set -u
ID=$1; WT=$2
export GOFLAGS=-mod=mod GOPROXY=off GOSUMDB=off GOTOOLCHAIN=local
S=/tmp/sc-$ID; rm -rf $S; mkdir -p $S
rsync -a --exclude .git /repo/ $S/with/; rsync -a --exclude .git /repo/ $S/base/
demo=$(cd $WT && git status --short | grep zz_demo_test.go | awk '{print $2}' | head -1)
[ -z "$demo" ] && demo=$(cd $WT && find . -name zz_demo_test.go | head -1 | sed 's|^\./||')
echo "demo file: $demo"
( cd $S/with && patch -p1 -s < $WT/patch.diff ) || { echo "PATCH DOES NOT APPLY"; exit 1; }
( cd $S/with && go build ./... ) && echo "build: ok" || { echo "BUILD FAILS"; exit 1; }
( cd $S/with && go test -vet=off -count=1 ./... 2>&1 | tail -4 )
cp $WT/$demo $S/with/$demo; cp $WT/$demo $S/base/$demo
DEMO=$demo
pkg=./$(dirname $demo)
echo "--- demo WITH change (must fail):"; ( cd $S/with && go test -vet=off -count=1 -run 'Demo' $pkg 2>&1 | tail -4 )
echo "--- demo on BASE (must pass):";    ( cd $S/base && go test -vet=off -count=1 -run 'Demo' $pkg 2>&1 | tail -3 )
echo "--- checks against the change (on the scratch copy):"
for p in ${3:-$ID}; do ( cd /verif && timeout 1500 bin/govc -repo $S/with -prop $p -no-evidence -work $S/work 2>&1 | grep "^govc\|^   \[" | cut -c1-230 | head -8 ); done
rm -rf $S
