#!/usr/bin/env python3
"""Systematic single-point mutation run (development aid, not part of a check): for a stratified sample of the mutants written by
bin/mutgen, does the existing suite notice? if not, does a check of one of the properties the mutated function's contract names
notice? Survivors (suite passes, checks silent) are listed for manual triage: equivalent mutant, property-irrelevant, or a miss."""
import json, os, re, shutil, subprocess, sys, tempfile, random, collections, concurrent.futures
ENV = dict(os.environ, GOFLAGS="-mod=mod", GOPROXY="off", GOSUMDB="off", GOTOOLCHAIN="local")
MUT = sys.argv[1]; OUT = sys.argv[2]; PER = int(sys.argv[3]) if len(sys.argv) > 3 else 2
def contract_props():
    props = {}
    for p in ['/repo/store/zz_verif_contracts.go', '/repo/sasl/zz_verif_contracts.go', '/repo/cmd/whawty-auth/zz_verif_contracts.go']:
        s = open(p).read()
        for m in re.finditer(r'\(func "([^"]+)"', s):
            # the form extends to the next top-level "(func" / "*/"
            e = min(x for x in [s.find('\n(func ', m.end()), s.find('\n*/', m.end()), len(s)] if x > 0)
            body = s[m.start():e]
            ps = []
            for q in re.findall(r'\(props ([^)]*)\)', body):
                for x in q.split():
                    if x not in ps: ps.append(x)
            props[m.group(1)] = ps
    return props
PROPS = contract_props()
def run_one(d):
    m = json.load(open(os.path.join(MUT, d, 'mutant.json')))
    tmp = tempfile.mkdtemp(prefix='govc-mut-')
    res = dict(m, id=d)
    try:
        subprocess.check_call(['rsync', '-a', '--exclude', '.git', '/repo/', tmp + '/'])
        shutil.copy(os.path.join(MUT, d, 'file.go'), os.path.join(tmp, m['File']))
        b = subprocess.run(['go', 'build', './...'], cwd=tmp, env=ENV, capture_output=True, text=True, errors='replace')
        if b.returncode != 0:
            res['result'] = 'does-not-compile'; return res
        pkg = './' + os.path.dirname(m['File'])
        t = subprocess.run(['go', 'test', '-vet=off', '-count=1', '-timeout', '120s', './store', './sasl'], cwd=tmp, env=ENV, capture_output=True, text=True, errors='replace')
        if t.returncode != 0:
            res['result'] = 'killed-by-suite'; return res
        props = PROPS.get(m['Func'], [])
        res['props'] = props
        for p in props:
            work = tempfile.mkdtemp(prefix='govc-mut-work-')
            r = subprocess.run(['/verif/bin/govc', '-repo', tmp, '-no-evidence', '-no-replay', '-work', work, '-prop', p], env=ENV, capture_output=True, text=True, errors='replace')
            shutil.rmtree(work, ignore_errors=True)
            if r.returncode != 0:
                failed = [l.strip()[1:].split(': ')[0] for l in r.stdout.split('\n') if l.startswith('   [')]
                res['result'] = 'detected'; res['by'] = p; res['obligations'] = failed[:6]; return res
        res['result'] = 'SURVIVED'; return res
    finally:
        shutil.rmtree(tmp, ignore_errors=True)
def main():
    rnd = random.Random(7)
    groups = collections.defaultdict(list)
    for d in sorted(os.listdir(MUT)):
        m = json.load(open(os.path.join(MUT, d, 'mutant.json')))
        groups[(m['Func'], m['Op'])].append(d)
    sample = []
    for k, v in sorted(groups.items()):
        rnd.shuffle(v); sample += v[:PER]
    done = {}
    if os.path.exists(OUT):
        for l in open(OUT):
            r = json.loads(l); done[r['id']] = r
    sample = [d for d in sample if d not in done]
    if len(sys.argv) > 4:
        rnd.shuffle(sample); sample = sample[:int(sys.argv[4])]
    print('%d mutants to run (%d done before)' % (len(sample), len(done)), flush=True)
    with open(OUT, 'a') as out, concurrent.futures.ThreadPoolExecutor(max_workers=3) as ex:
        for r in ex.map(run_one, sample):
            out.write(json.dumps(r) + '\n'); out.flush()
            print(r['id'], r['result'], r['Func'], r['Op'], r.get('by', ''), flush=True)
main()
