#!/bin/bash
# usage: refcheck.sh <workdir of a refactoring sub-agent> [props...]  -- applies a behaviour-preserving change to a scratch copy of /repo,
# runs the quick checks on it (all claimed properties by default), lists every alarm, removes the copy.
set -u
WT=$1; shift
PROPS=${*:-C01 C02 C03 C04 C05 C06 C07 C08 C09 C12 C13 C14 C15 C16 C17 C18 C19}
export GOFLAGS=-mod=mod GOPROXY=off GOSUMDB=off GOTOOLCHAIN=local
S=$(mktemp -d /tmp/refcheck-XXXXXX)
rsync -a --exclude .git /repo/ $S/
( cd $S && patch -p1 -s < $WT/patch.diff ) || { echo "cannot apply"; rm -rf $S; exit 1; }
( cd $S && go build ./... && go test -vet=off -count=1 ./store ./sasl 2>&1 | tail -2 )
for p in $PROPS; do
  out=$(cd /verif && timeout 3000 bin/govc -repo $S -prop $p -no-evidence -no-replay -work $S.work 2>&1)
  echo "$out" | grep "^govc:" | cut -c1-160
  echo "$out" | grep "^   \[" | cut -c1-260 | head -12
  rm -rf $S.work
done
rm -rf $S
