#!/usr/bin/env python3
"""Must-fail / must-stay-silent corpus runner.
Each /verif/selftest/<name>/ holds patch.diff (against /repo) and expect.json:
  {"prop": "C07", "must_fail": ["substring of an obligation name", ...]}   -> check must exit 1 and name each
  {"prop": "C07", "silent": true}                                            -> check must exit 0
The patch is applied to a scratch copy of /repo's working tree (removed afterwards)."""
import json, os, shutil, subprocess, sys, tempfile, concurrent.futures

ENV = dict(os.environ, GOFLAGS="-mod=mod", GOPROXY="off", GOSUMDB="off", GOTOOLCHAIN="local")

def run_one(name):
    d = os.path.join('/verif/selftest', name)
    exp = json.load(open(os.path.join(d, 'expect.json')))
    tmp = tempfile.mkdtemp(prefix='govc-selftest-')
    try:
        subprocess.check_call(['rsync', '-a', '--exclude', '.git', '/repo/', tmp + '/'])
        p = subprocess.run(['patch', '-p1', '-s', '-d', tmp, '-i', os.path.join(d, 'patch.diff')], capture_output=True, text=True)
        if p.returncode != 0:
            return name, False, 'patch does not apply: ' + p.stdout + p.stderr
        b = subprocess.run(['go', 'build', './...'], cwd=tmp, env=ENV, capture_output=True, text=True)
        if b.returncode != 0:
            return name, False, 'patched tree does not build: ' + b.stderr[:500]
        work = tempfile.mkdtemp(prefix='govc-selftest-work-')
        cmd = ['/verif/bin/govc', '-repo', tmp, '-no-evidence', '-no-replay', '-work', work]
        if exp.get('fn'):
            cmd += ['-fn', exp['fn']]   # development mode: restrict to some functions, all properties
        else:
            cmd += ['-prop', exp['prop']]
        r = subprocess.run(cmd,
                           env=ENV, capture_output=True, text=True)
        shutil.rmtree(work, ignore_errors=True)
        out = r.stdout
        failed = [l.strip()[1:].split(': ')[0] for l in out.split('\n') if l.startswith('   [')]
        try:
            os.makedirs('/verif/work/fired', exist_ok=True)
            json.dump(failed, open('/verif/work/fired/%s.json' % name, 'w'))
        except Exception:
            pass
        if exp.get('silent'):
            ok = r.returncode == 0
            return name, ok, 'silent as required' if ok else 'ALARM on harmless edit: ' + '; '.join(failed)
        if r.returncode != 1:
            return name, False, 'expected exit 1, got %d: %s' % (r.returncode, out[-300:] + r.stderr[-300:])
        import re
        strip = lambda x: re.sub(r'#\d+', '', x)   # positions of call sites are not part of an expectation
        missing = [m for m in exp['must_fail'] if not any(strip(m) in strip(f) for f in failed)]
        if missing:
            return name, False, 'failed obligations %s do not include %s' % (failed, missing)
        return name, True, 'fails as required: ' + '; '.join(failed[:4])
    finally:
        shutil.rmtree(tmp, ignore_errors=True)

def main():
    names = sorted(n for n in os.listdir('/verif/selftest') if os.path.exists(os.path.join('/verif/selftest', n, 'expect.json')))
    sel = sys.argv[1:]
    if sel:
        names = [n for n in names if any(s in n or s == json.load(open('/verif/selftest/%s/expect.json' % n))['prop'] for s in sel)]
    bad = 0
    with concurrent.futures.ThreadPoolExecutor(max_workers=2) as ex:
        for name, ok, msg in ex.map(run_one, names):
            print(('PASS ' if ok else 'FAIL ') + name + ': ' + msg, flush=True)
            bad += 0 if ok else 1
    print('%d selftests, %d failed' % (len(names), bad))
    sys.exit(1 if bad else 0)

main()
