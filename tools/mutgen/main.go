// mutgen writes single-point mutants of the functions under contract: usage mutgen <repo> <outdir> <contracted-names-file> files...
// Each mutant is a directory with mutant.json {file, func, op, line, before, after} and the mutated file content (file.go).
package main

import (
	"bytes"
	"encoding/json"
	"fmt"
	"go/ast"
	"go/parser"
	"go/printer"
	"go/token"
	"os"
	"path/filepath"
	"strings"
)

type mut struct {
	File, Func, Op, Before, After string
	Line                          int
}

var swaps = map[token.Token]token.Token{token.EQL: token.NEQ, token.NEQ: token.EQL, token.LSS: token.LEQ, token.LEQ: token.LSS,
	token.GTR: token.GEQ, token.GEQ: token.GTR, token.LAND: token.LOR, token.LOR: token.LAND, token.ADD: token.SUB, token.SUB: token.ADD}

func render(fset *token.FileSet, n ast.Node) string {
	var b bytes.Buffer
	printer.Fprint(&b, fset, n)
	s := b.String()
	if len(s) > 120 {
		s = s[:120] + "..."
	}
	return strings.ReplaceAll(s, "\n", " ")
}

func main() {
	repo, out, namesFile := os.Args[1], os.Args[2], os.Args[3]
	contracted := map[string]bool{}
	b, _ := os.ReadFile(namesFile)
	for _, l := range strings.Split(string(b), "\n") {
		contracted[strings.TrimSpace(l)] = true
	}
	id := 0
	for _, rel := range os.Args[4:] {
		path := filepath.Join(repo, rel)
		src, err := os.ReadFile(path)
		if err != nil {
			panic(err)
		}
		// count mutation points first, then re-parse for every mutant (simple and safe)
		type point struct {
			fn   string
			kind string
			idx  int
		}
		var points []point
		fset := token.NewFileSet()
		f, err := parser.ParseFile(fset, path, src, parser.ParseComments)
		if err != nil {
			panic(err)
		}
		pkg := f.Name.Name
		fnName := func(fd *ast.FuncDecl) string {
			if fd.Recv != nil && len(fd.Recv.List) > 0 {
				switch t := fd.Recv.List[0].Type.(type) {
				case *ast.StarExpr:
					if id, ok := t.X.(*ast.Ident); ok {
						return "(*" + pkg + "." + id.Name + ")." + fd.Name.Name
					}
				case *ast.Ident:
					return "(" + pkg + "." + t.Name + ")." + fd.Name.Name
				}
			}
			return pkg + "." + fd.Name.Name
		}
		walk := func(f *ast.File, visit func(fn string, kind string, idx int, apply func() (string, string))) {
			for _, d := range f.Decls {
				fd, ok := d.(*ast.FuncDecl)
				if !ok || fd.Body == nil {
					continue
				}
				name := fnName(fd)
				if !contracted[name] {
					continue
				}
				counters := map[string]int{}
				next := func(kind string) int { counters[kind]++; return counters[kind] - 1 }
				ast.Inspect(fd.Body, func(n ast.Node) bool {
					switch x := n.(type) {
					case *ast.CallExpr:
						// do not mutate inside logging calls
						if se, ok := x.Fun.(*ast.SelectorExpr); ok {
							if id, ok := se.X.(*ast.Ident); ok && (id.Name == "wl" || id.Name == "wdl" || (id.Name == "fmt" && strings.HasPrefix(se.Sel.Name, "Print"))) {
								return false
							}
						}
						// swap the first two arguments when both are plain identifiers / selectors
						if len(x.Args) >= 2 {
							_, a0 := x.Args[0].(*ast.BasicLit)
							_, a1 := x.Args[1].(*ast.BasicLit)
							if !a0 && !a1 {
								i := next("swapargs")
								visit(name, "swapargs", i, func() (string, string) {
									before := render(fset, x)
									x.Args[0], x.Args[1] = x.Args[1], x.Args[0]
									return before, render(fset, x)
								})
							}
						}
					case *ast.BinaryExpr:
						if to, ok := swaps[x.Op]; ok {
							if x.Op == token.ADD {
								if bl, ok := x.X.(*ast.BasicLit); ok && bl.Kind == token.STRING {
									return true
								}
								if bl, ok := x.Y.(*ast.BasicLit); ok && bl.Kind == token.STRING {
									return true
								}
							}
							i := next("binop")
							visit(name, "binop", i, func() (string, string) {
								before := render(fset, x)
								x.Op = to
								return before, render(fset, x)
							})
						}
					case *ast.IfStmt:
						i := next("negate")
						visit(name, "negate", i, func() (string, string) {
							before := render(fset, x.Cond)
							x.Cond = &ast.UnaryExpr{Op: token.NOT, X: &ast.ParenExpr{X: x.Cond}}
							return before, render(fset, x.Cond)
						})
					case *ast.BasicLit:
						if x.Kind == token.INT {
							i := next("intlit")
							visit(name, "intlit", i, func() (string, string) {
								before := x.Value
								var v int64
								if _, err := fmt.Sscanf(x.Value, "%v", &v); err != nil {
									return before, before
								}
								x.Value = fmt.Sprint(v + 1)
								return before, x.Value
							})
						}
					case *ast.Ident:
						if x.Name == "true" || x.Name == "false" {
							i := next("bool")
							visit(name, "bool", i, func() (string, string) {
								before := x.Name
								if x.Name == "true" {
									x.Name = "false"
								} else {
									x.Name = "true"
								}
								return before, x.Name
							})
						}
					case *ast.BlockStmt:
						for k, st := range x.List {
							switch s := st.(type) {
							case *ast.ExprStmt, *ast.AssignStmt, *ast.IfStmt, *ast.DeferStmt:
								if as, ok := s.(*ast.AssignStmt); ok && as.Tok == token.DEFINE {
									continue // removing a declaration does not compile
								}
								if ifs, ok := s.(*ast.IfStmt); ok && (ifs.Else != nil || ifs.Init != nil) {
									continue
								}
								if es, ok := s.(*ast.ExprStmt); ok {
									if c, ok := es.X.(*ast.CallExpr); ok {
										if se, ok := c.Fun.(*ast.SelectorExpr); ok {
											if id, ok := se.X.(*ast.Ident); ok && (id.Name == "wl" || id.Name == "wdl" || id.Name == "fmt") {
												continue
											}
										}
									}
								}
								i := next("delete")
								kk := k
								blk := x
								visit(name, "delete", i, func() (string, string) {
									before := render(fset, blk.List[kk])
									blk.List = append(append([]ast.Stmt{}, blk.List[:kk]...), blk.List[kk+1:]...)
									return before, "(statement removed)"
								})
							}
						}
					}
					return true
				})
			}
		}
		walk(f, func(fn, kind string, idx int, _ func() (string, string)) { points = append(points, point{fn, kind, idx}) })
		for _, p := range points {
			fset = token.NewFileSet()
			f, _ = parser.ParseFile(fset, path, src, parser.ParseComments)
			var m *mut
			line := 0
			walk(f, func(fn, kind string, idx int, apply func() (string, string)) {
				if fn == p.fn && kind == p.kind && idx == p.idx && m == nil {
					before, after := apply()
					m = &mut{File: rel, Func: fn, Op: kind, Before: before, After: after, Line: line}
				}
			})
			if m == nil || m.Before == m.After {
				continue
			}
			var buf bytes.Buffer
			if err := (&printer.Config{Mode: printer.UseSpaces | printer.TabIndent, Tabwidth: 8}).Fprint(&buf, fset, f); err != nil {
				continue
			}
			dir := filepath.Join(out, fmt.Sprintf("m%04d", id))
			id++
			os.MkdirAll(dir, 0o755)
			os.WriteFile(filepath.Join(dir, "file.go"), buf.Bytes(), 0o644)
			jb, _ := json.MarshalIndent(m, "", " ")
			os.WriteFile(filepath.Join(dir, "mutant.json"), jb, 0o644)
		}
	}
	fmt.Println(id, "mutants")
}
