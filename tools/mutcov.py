#!/usr/bin/env python3
"""Which claimed obligations have never been made to fail by any must-fail case or seeded change? (work/fired/*.json are written by
selftest.py and seedall.py.) An obligation that no mutant has ever violated is either about something no mutant touched or is
weaker than it looks; the list directs new must-fail cases. Panic-freedom, frame and callee-precondition obligations are summarised
only."""
import json, os, re, sys, collections
norm = lambda n: re.sub(r'#\d+', '', n)
allobl = set()
for f in os.listdir('/verif/expected'):
    for n in json.load(open('/verif/expected/' + f)):
        allobl.add(n)
fired = collections.Counter()
for f in os.listdir('/verif/work/fired'):
    for n in json.load(open('/verif/work/fired/' + f)):
        fired[norm(n)] += 1
kinds = collections.Counter(); dead = collections.defaultdict(list)
for n in sorted(allobl):
    m = re.search(r'/(ensures|site|send|go|loop\d+/(?:entry|preserve)|crashinv|fsframe|call|safe|frame|cover)[:/]', n)
    k = m.group(1) if m else n.split(':')[0]
    k = re.sub(r'loop\d+/', 'loop/', k)
    kinds[k] += 1
    if fired[norm(n)] == 0:
        dead[k].append(n)
print('obligations: %d, never violated by any mutant: %d' % (len(allobl), sum(len(v) for v in dead.values())))
for k in sorted(kinds):
    print('  %-16s %4d total, %4d never violated' % (k, kinds[k], len(dead[k])))
for k in ('ensures', 'site', 'send', 'go', 'loop/preserve', 'crashinv', 'fsframe', 'lemma', 'structural'):
    if '-v' in sys.argv or k in ('ensures', 'site', 'send', 'go'):
        for n in dead.get(k, []):
            print('NEVER', n)
