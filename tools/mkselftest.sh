#!/bin/sh
# usage: mkselftest.sh <name> <prop> <must-fail-substring|SILENT> -- creates selftest/<name> from the current uncommitted diff of /repo (non-contract files), then reverts it
set -e
d=/verif/selftest/$1; mkdir -p $d
git -C /repo diff -- . ':(exclude)*/zz_verif_contracts.go' > $d/patch.diff
[ -s $d/patch.diff ] || { echo "no diff"; exit 1; }
if [ "$3" = SILENT ]; then echo "{\"prop\": \"$2\", \"silent\": true}" > $d/expect.json; else
python3 -c "import json,sys; json.dump({'prop': sys.argv[1], 'must_fail': sys.argv[2:]}, open('$d/expect.json','w'))" "$2" "$3" $4 $5; fi
if [ -n "$SELFTEST_FN" ]; then python3 -c "import json; e=json.load(open('$d/expect.json')); e['fn']='$SELFTEST_FN'; json.dump(e, open('$d/expect.json','w'))"; fi
git -C /repo diff --name-only -- . ':(exclude)*/zz_verif_contracts.go' | xargs git -C /repo checkout --
echo created $d
