#!/usr/bin/env python3
"""Regression over the independently seeded changes: every /verif/seeded/<id>/patch.diff is applied to a scratch copy of /repo's
working tree (removed afterwards) and the quick check of its property must report a violation. Writes the obligations that fired
to /verif/work/fired/seed-<id>.json. usage: seedall.py [substring ...]"""
import json, os, shutil, subprocess, sys, tempfile, concurrent.futures

ENV = dict(os.environ, GOFLAGS="-mod=mod", GOPROXY="off", GOSUMDB="off", GOTOOLCHAIN="local")

def run_one(name):
    d = os.path.join('/verif/seeded', name)
    meta = json.load(open(os.path.join(d, 'meta.json')))
    prop = meta['property']
    tmp = tempfile.mkdtemp(prefix='govc-seed-')
    try:
        subprocess.check_call(['rsync', '-a', '--exclude', '.git', '/repo/', tmp + '/'])
        p = subprocess.run(['patch', '-p1', '-s', '-d', tmp, '-i', os.path.join(d, 'patch.diff')], capture_output=True, text=True)
        if p.returncode != 0:
            return name, None, 'patch does not apply any more (the code it changes was repaired or refactored): ' + (p.stdout + p.stderr)[:200]
        b = subprocess.run(['go', 'build', './...'], cwd=tmp, env=ENV, capture_output=True, text=True)
        if b.returncode != 0:
            return name, None, 'does not build: ' + b.stderr[:300]
        work = tempfile.mkdtemp(prefix='govc-seed-work-')
        r = subprocess.run(['/verif/bin/govc', '-repo', tmp, '-no-evidence', '-no-replay', '-work', work, '-prop', prop], env=ENV, capture_output=True, text=True)
        shutil.rmtree(work, ignore_errors=True)
        failed = [l.strip()[1:].split(': ')[0] for l in r.stdout.split('\n') if l.startswith('   [')]
        os.makedirs('/verif/work/fired', exist_ok=True)
        json.dump(failed, open('/verif/work/fired/seed-%s.json' % name, 'w'))
        if r.returncode == 1 and failed:
            return name, True, '%s: %s' % (prop, '; '.join(failed[:3]))
        return name, False, '%s: exit %d, NOT DETECTED: %s' % (prop, r.returncode, r.stdout[-200:])
    finally:
        shutil.rmtree(tmp, ignore_errors=True)

def main():
    names = sorted(n for n in os.listdir('/verif/seeded') if os.path.exists(os.path.join('/verif/seeded', n, 'meta.json')))
    if sys.argv[1:]:
        names = [n for n in names if any(s in n for s in sys.argv[1:])]
    bad = 0
    with concurrent.futures.ThreadPoolExecutor(max_workers=2) as ex:
        for name, ok, msg in ex.map(run_one, names):
            tag = 'SKIP ' if ok is None else ('PASS ' if ok else 'FAIL ')
            print(tag + name + ': ' + msg, flush=True)
            bad += 1 if ok is False else 0
    print('%d seeds, %d not detected' % (len(names), bad))
    sys.exit(1 if bad else 0)

main()
