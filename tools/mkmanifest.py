#!/usr/bin/env python3
"""Regenerates /verif/MANIFEST.json from the table below (kept next to the checks it describes)."""
import json, subprocess

CLAIMED = {
 "C13": dict(
  text="Deductive proof over the real Go code (go/ssa of /repo, contracts in sasl/zz_verif_contracts.go): the split function's full case table, "
       "the decoder and encoder loops (inductive invariants, no bound), Request/Response Encode/Decode against the wire-format spec functions, "
       "plus machine-checked lemmas over those contracts: fragment-independence (stability of the split function under input extension), "
       "decode(encode(x)) = x for all contents up to the limit, over-limit refusal, and re-encoding of consumed bytes. All inputs, all iterations.",
  note="Assumed: bufio.Scanner contract (DESIGN App. A) incl. the reader's terminal-error clause; io.Writer.Write; binary.BigEndian as u16/be16 "
       "(lemmas prove the concrete definitions satisfy the axioms); strings are byte strings. Not decided: equality with the PAM module's C encoder; Marshal/Unmarshal aliasing of bytes.Buffer.",
  design="3 C13"),
 "C05": dict(
  text="Deductive proof of handleConnection over one symbolic byte stream (so truncated/padded/fragmented/abandoned streams are all covered): "
       "callback at most once and only with the four decoded fields, positive reply only if decode ok and callback approved without error, "
       "exactly one reply written and the connection closed; reply fits the client's 256-byte part limit and decodes to the callback's verdict (lemma resp-roundtrip); "
       "the bundled Go client (Client.Auth) sends exactly its four arguments, reports success only for a completely decoded reply starting with OK, and treats every failure as a denial.",
  note="Assumed: bufio.Scanner / net.Conn contracts; the callback is an arbitrary function observed through ghost state. "
       "Concurrency clause (independent connections) rests on handleConnection's frame (no Server field written), not on a schedule exploration. PAM-module decodability is not decided (C code).",
  design="3 C05"),
 "C07": dict(
  text="Deductive proof of the session factory over an idealised AEAD: the key is a fresh 16-byte crypto/rand draw (failure of the draw is an error), every token uses a "
       "new 12-byte draw as nonce, Generate seals exactly '<user>:<true|false>:<unix time>' and emits base64url(nonce):base64url(ciphertext); Check accepts only a "
       "(nonce, ciphertext) this factory's key sealed, whose plaintext splits into colon-free user, strict true/false and a decimal time with 0 <= age <= lifetime. "
       "Lemma token-identity: an accepted plaintext of the issued form yields exactly the issued user and flag.",
  note="Assumed: AES-GCM as an ideal AEAD (Open succeeds only on what Seal produced under the same key; openf(sealf(p)) = p), distinct crypto/rand draws differ, "
       "base64 is injective on its image, the clock does not step backwards inside one function. The base64 text layer itself is not part of the claim (as the property says).",
  design="3 C07"),
 "C04": dict(
  text="Deductive proof of the wiring of all five frontends and of the request funnel: each frontend passes exactly the decoded credentials to Store.Authenticate "
       "(LDAP: the bind name cut at the first '@'), accepts iff the store accepted without error (HTTP 200 / LDAP success / SASL ok / exit 0,1,3), the wrapper sends them unchanged "
       "and returns the received results in order, the dispatcher calls authenticate with the request's fields and answers on the request's channel with that call's result, "
       "and authenticate returns Dir.Authenticate's five results unchanged; Dir.Authenticate's 'error implies denial' is proved over the store code. "
       "Wiring: the saslauthd server installs exactly the given callback and hands every accepted connection to handleConnection of that server, both saslauthd listeners pass the "
       "store-asking closure, every /basic-auth and /api/ path is registered with the handler proved for it over the listener's store and one session factory, and the LDAP listeners "
       "register a bind handler over the listener's store on the server they serve.",
  note="Assumed: what r.BasicAuth(), json.Decoder, the LDAP library and urfave/cli hand over are the submitted credentials (symbolic inputs); a value received from a reply channel "
       "is the value the dispatcher's checked send produced (channel hand-off). SASL field limits are C13/C05.",
  design="3 C04"),
 "C06": dict(
  text="Deductive proof of call-site authorisation in all eight handlers: every store mutation / listing call is dominated by a Check of the request's own token that returned 200 "
       "with the admin flag (update: admin, or token user = target, or a successful Authenticate of target with the old password, and exactly one credential kind), with the request's "
       "own arguments; a token is generated only after a successful Authenticate and names that user and the store-reported admin flag; status 200 only if the store call happened and "
       "returned nil; a list is put into a response only from the store's result under a valid admin session; exactly one response per request. Check's own meaning is C07's proof.",
  note="Assumed: JSON decoding fills the request struct with arbitrary values (that is the symbolic input); that ServeMux dispatches a path to the handler registered for it (the registrations are proved); channel hand-off to the dispatcher. 'Store byte-for-byte "
       "unchanged on refusal' rests on: no mutating call was made on those paths (proved) and C15 for failed store calls.",
  design="3 C06"),
 "C12": dict(
  text="Deductive proof of the safety clauses: Authenticate reports upgradeable exactly as (default != record's parameter-set id); an upgrade request is queued only for a successful, "
       "upgradeable login, only if an upgrade channel is configured, and carries exactly that login's credentials; with upgrades off nothing is ever sent and authentication does not touch the "
       "file system (frame); local upgrades go through the ordinary policy-checked update, which writes a record under the default set for exactly that password keeping auxiliary lines and "
       "extension; the remote upgrade request carries the login password as old password only.",
  note="Not decided: the convergence clause ('on an idle agent the rewrite does happen') is liveness, and interleaving with other writers is C11. Assumed: channel hand-off.",
  design="3 C12"),
 "C17": dict(
  text="Deductive proof that every write path (init, add, update; CLI, HTTP API and local upgrade all funnel into these three functions) calls the store only when the configured "
       "policy accepted exactly (password, username), that a refusal returns an error without any store call, that accepted passwords are not refused on policy grounds, that the zxcvbn "
       "condition parser accepts exactly the documented grammar and stores the matching comparator, each comparator is >= on its field, and that a policy constructor error stops NewStore "
       "before the dispatcher is started.",
  note="Assumed: the zxcvbn scorer is an uninterpreted function of (password, [username, 'whawty']); float thresholds are exact; policy objects are only built by newZXCVBNPolicy.",
  design="3 C17"),
 "C01": dict(
  text="Deductive proof over the real store code under a relational file-system model: Authenticate's verdict is exactly 'the user's file exists (.admin first), its first line parses as a record of a configured "
       "parameter set with matching format id, and that set's hasher accepts the password' (both directions; the 'if' direction when no system call fails spuriously), with admin flag, last-changed time and upgradeable "
       "read from that record; add/update write exactly '<fmt>:<now>:<default id>:<Generate(pw)>' + old auxiliary lines, set-admin renames the same inode, remove unlinks both names, every other name and every existing "
       "inode untouched; both hashers are verified against the interface verdict (full password, full salt, full-length constant-time compare). Lemmas over these contracts: a written record parses back to the written "
       "fields, and authenticating after a write succeeds iff the algorithm maps both passwords to the same digest under the stored salt. List reports exactly the valid-named entries with supported hashes (nested-loop invariants). "
       "The statement for every finite history is the induction over these per-operation view clauses.",
  note="Assumed: the file-system model and os/bufio contracts (DESIGN App. A), argon2id/scrypt/HMAC as uninterpreted functions (which passwords collide inside the primitive is the cryptographic assumption the property names), "
       "base64 round trip, path algebra for schema-valid names, hasher objects immutable after construction, one writer at a time.",
  design="3 C01"),
 "C02": dict(
  text="Deductive proof that for an arbitrary (symbolic) file content authentication succeeds only if the first line cuts into four fields at the first three ':' with decimal time and id, the id names a configured "
       "parameter set whose format id equals the first field and whose hasher accepts (base64 decoding of both halves, exactly one ':' in the hash string, digest equality); panic-freedom obligations on every index/slice/"
       "nil/type-assertion of the parser, decoders and hashers; update refuses unsupported hashes leaving all entries and data untouched, add refuses existing files whatever they contain, remove unlinks regardless of "
       "content, List hides unsupported files; lemma record-format: a line written by any implementation as f:t:i:h is read back as exactly those fields (the converse direction).",
  note="Assumed: strings.SplitN/Split as first-':' cuts, strconv/base64 contracts, file-system model. Not decided: 'never a hang' (library calls are assumed to terminate; the functions have no loops); ListFull's "
       "'shown as unsupported' is covered only by its read-only frame.",
  design="3 C02"),
 "C03": dict(
  text="Deductive proof: every UserHash/Dir operation with a name outside the schema grammar is an error or a no-op with the entry map unchanged, never authenticates, and Check counts only valid-named admin files; "
       "a path-frame obligation at EVERY file-system primitive reached (stat/open/openfile/mkdir/createtemp/write/sync/rename/remove, including deferred calls and helpers) shows its path is <base>/<name>.user, "
       "<base>/<name>.admin, <base>, <base>/.tmp or a file in <base>/.tmp with a schema-valid name; structural obligation: the regular expression the code compiles is literally the schema grammar; lemma: the grammar "
       "excludes '/', ':', NUL, empty, '.', '..', leading '.' and '-'.",
  note="Assumed: filepath.Join/Dir/Clean facts for valid names only (for any other name Join is unconstrained, so no primitive may be reachable); hand translation of the regex literal into an SMT regular expression. "
       "Frontends: follows from C04 (they accept only what the store accepted).",
  design="3 C03"),
 "C08": dict(
  text="Deductive proof of a crash invariant after EVERY file-system primitive of writeHashStr (open/create, mkdir, createtemp, write, copy, fsync, rename, directory fsync, deferred close/remove) - i.e. at every "
       "system-call boundary, no enumeration: the target shows its entry content (same inode, same data), or an empty reservation (add only), or the complete new record plus all auxiliary lines whose data is already "
       "fsynced at the moment it is linked; every other final name keeps its inode and every existing inode its data; only .tmp gains entries. Add, Update, Init inherit it through the contract.",
  note="Assumed: the persistence model (data durable after fsync(file), entries after fsync(dir); rename/unlink/O_EXCL create atomic), single writer. 'Old password works until the new one does' is the lemma C01 "
       "applied to those three contents.",
  design="3 C08"),
 "C09": dict(
  text="Deductive proof of 'success implies durable' postconditions: after a successful writeHashStr/Add/Update the base directory's entries are fsynced and the target inode's data is fsynced (and C08: it was "
       "fsynced before it was linked); after SetAdmin and Remove (when they changed anything) the base directory is fsynced.",
  note="Assumed: persistence model. Remove reports nothing, so its clause holds when its fsync did not fail spuriously.",
  design="3 C09"),
 "C14": dict(
  text="Deductive proof: the record written is exactly '<GetFormatID>:<time.Now().Unix()>:<Default>:<Generate(pw)>\\n'; Generate of both hashers uses a fresh crypto/rand draw of 16 / 32 bytes as salt (short read or "
       "error is an error), computes argon2id(pw, salt, Time, Memory, Threads, Length) resp. HMAC-SHA256(key, scrypt(pw, salt, 2^cost, R, P, 32)) and emits URL-safe base64 of both; the constructors copy the "
       "configured parameters (r/p overrides only when > 0, standard-base64 key of 32 bytes, cost <= 31); the dependency scryptauth is verified from its source; what is written is a function of the password and the "
       "key only through the hash function.",
  note="Assumed: the x/crypto primitives compute the named functions; YAML field mapping (struct tags) is not checked here; distinct draws differ.",
  design="3 C14"),
 "C15": dict(
  text="Deductive proof: read-only operations (exists, authenticate, check, list, list-full and the helpers) have an empty file-system frame (every ghost component proved unchanged, path frame allows only stat/open); "
       "update keeps everything after the first line of the old file, set-admin keeps the inode; a failing add/update/set-admin leaves every final name as it was for EVERY single failing system call (each primitive "
       "may fail on every path; one obligation per failing call site), semantic failures leave entries and data identical.",
  note="Known findings (recorded, demonstrated with strace fault injection, see known_findings.txt): directory fsync failing after the rename in writeHashStr/SetAdmin, and cleanup of the add reservation failing. "
       "Assumed: file-system model; 'single failure' is counted by a ghost fault counter.",
  design="3 C15"),
 "C16": dict(
  text="Deductive proof with a loop invariant over the directory listing that Check accepts exactly when the base dir is a readable directory, every entry other than '.tmp' has extension .user/.admin, no "
       "valid name has both, and some valid-named .admin file holds a supported hash (both directions; 'if' when no call fails spuriously); Init proceeds only on a directory with no entry other than a directory "
       ".tmp and then creates the admin through AddUser; add refuses when either extension exists, set-admin moves, remove deletes both; the work area is left clean by a successful write; every CLI command "
       "path through openAndCheck runs Check unless do-check is off.",
  note="Assumed: Readdirnames/ReadDir enumerate exactly the entries. The validity-preservation statement over histories is the induction over the per-operation entry clauses of C01.",
  design="3 C16"),
 "C18": dict(
  text="Deductive proof of the loader with an inductive loop invariant over the parameter-set list: an accepted configuration has a non-empty base dir, every entry an id > 0 and exactly one algorithm, "
       "no set 0, a default that names a stored set (or no sets at all), and every stored set is a constructor result (argon2id: time >= 1 and threads >= 1; scrypt: 32-byte key, cost <= 31) - which is "
       "exactly the precondition under which argon2.IDKey cannot panic, proved as call-site obligations inside Generate/Check; the YAML decoder is put into strict mode before Decode (protocol obligation); "
       "struct tags are checked structurally. Reload: the served *Dir pointer is either unchanged or the freshly loaded object whose Check returned nil, no field of any pre-existing Dir object is written "
       "(heap frame), the hooks caller is told the new base dir only then.",
  note="Assumed: yaml.v3 fills the struct by tag and reports unknown keys in strict mode; hasher objects are immutable after construction. Not decided: the schedule clause (signals at any point, any number): reload runs "
       "inside the single dispatcher goroutine (call-graph fact), which is the basis for 'requests in flight see entirely old or entirely new'. Resource exhaustion from huge memory/cost values is outside the model.",
  design="3 C18"),
 "C19": dict(
  text="Deductive proof of the safety clauses: add/update/set-admin send a change notification exactly when the store call succeeded (remove always), checked in both directions with a ghost counter; "
       "runAllHooks (loop invariant over the directory listing) starts a process exactly for the non-hidden entries that are regular files or symlinks with an executable bit, only if the hooks directory is a "
       "directory that is not world-writable, with the path Join(dir, Clean('/'+name)) and the current store; runHook starts exactly one process with the single argument 'update', the environment plus "
       "WHAWTY_AUTH_STORE=<store> and no stdio; the rate limiter (ghost code on receive/timer/round events) keeps the invariant 'notifications received since the start of the last round exist only while "
       "pending > 1 and the timer is armed', so no notification is left without a round at or after it or an armed timer that will start one.",
  note="Not decided: that the armed timer fires (liveness), kill-after-one-minute, 'never delaying the agent', and the 'at most two rounds per interval' count. Assumed: fewer than 2^64 notifications per "
       "interval; os/exec and time.Timer contracts; FileMode bit layout.",
  design="3 C19"),
}

NOT_APPLICABLE = {
 "C10": "liveness under all goroutine schedules: pre/postconditions on sequential functions cannot state 'eventually answered'; no concurrency logic for Go channels is available here",
 "C11": "linearizability quantifies over concurrent histories and dispatcher scheduling; per-function contracts do not decide it",
 "C20": "pam/pam_whawty.c is C; no deductive C verifier is installed and govc reads Go SSA only",
}
PENDING = "not claimed in this commit: contracts for the anchored functions are not yet complete (see DESIGN.md section 0 for the plan)"

def main():
    props = [json.loads(l) for l in open('/verif/properties.jsonl')]
    checks = []
    na = []
    for p in props:
        pid = p['id']
        if pid in CLAIMED:
            c = CLAIMED[pid]
            checks.append({
                "property_id": pid,
                "quick_cmd": "./check.sh %s quick" % pid,
                "thorough_cmd": "./check.sh %s thorough" % pid,
                "evidence_file": "/verif/evidence/%s.json" % pid,
                "replay_cmd_template": "cat {path}",
                "engine": "govc",
                "level_claimed": {"category": "proof", "text": c['text'], "design_ref": c['design']},
                "level_note": c['note'],
                "technique": "contract-based deductive verification: weakest-precondition VCs over go/ssa of the real code, discharged by z3/cvc5",
            })
        else:
            na.append({"property_id": pid, "reason": NOT_APPLICABLE.get(pid, PENDING)})
    try:
        commits = subprocess.check_output(['git', '-C', '/repo', 'log', '--format=%H %s', 'c68a82b..HEAD'], text=True).strip().split('\n')
    except Exception:
        commits = []
    hooks = [c.split()[0] for c in commits if ' verif:' in c]
    m = {
        "version": 1,
        "setup_cmd": "./setup.sh",
        "hooks": {
            "guard": "verif",
            "enable": "govc loads /repo with go/packages BuildFlags -tags=verif; the tag only adds zz_verif_contracts.go files (build constraint, package clause, comments)",
            "baseline_off_cmd": "cd /repo && GOFLAGS=-mod=mod GOPROXY=off GOSUMDB=off GOTOOLCHAIN=local go test -json -vet=off -count=1 -timeout 25m ./...",
            "source_commits": hooks,
            "add_only": True,
        },
        "engines": [{"name": "govc", "path": "/verif/govc", "serves_properties": sorted(CLAIMED), "kind_free_text": "verification-condition generator for Go (go/ssa naive form) with s-expression contracts; SMT back ends z3 4.8.12, z3 5.1.0, cvc5 1.0.3"}],
        "checks": checks,
        "not_applicable": na,
        "notes": "Every check rebuilds the SSA and all VCs from /repo's working tree. Known findings: /verif/known_findings.txt.",
    }
    json.dump(m, open('/verif/MANIFEST.json', 'w'), indent=1)
    print("claimed:", sorted(CLAIMED), "hooks:", len(hooks))

main()
