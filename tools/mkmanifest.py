#!/usr/bin/env python3
"""Regenerates /verif/MANIFEST.json from the table below (kept next to the checks it describes)."""
import json, subprocess

CLAIMED = {
 "C13": dict(
  text="Deductive proof over the real Go code (go/ssa of /repo, contracts in sasl/zz_verif_contracts.go): the split function's full case table, "
       "the decoder and encoder loops (inductive invariants, no bound), Request/Response Encode/Decode against the wire-format spec functions, "
       "plus machine-checked lemmas over those contracts: fragment-independence (stability of the split function under input extension), "
       "decode(encode(x)) = x for all contents up to the limit, over-limit refusal, and re-encoding of consumed bytes. All inputs, all iterations.",
  note="Assumed: bufio.Scanner contract (DESIGN App. A) incl. the reader's terminal-error clause; io.Writer.Write; binary.BigEndian as u16/be16 "
       "(lemmas prove the concrete definitions satisfy the axioms); strings are byte strings. Not decided: equality with the PAM module's C encoder; Marshal/Unmarshal aliasing of bytes.Buffer.",
  design="3 C13"),
 "C05": dict(
  text="Deductive proof of handleConnection over one symbolic byte stream (so truncated/padded/fragmented/abandoned streams are all covered): "
       "callback at most once and only with the four decoded fields, positive reply only if decode ok and callback approved without error, "
       "exactly one reply written and the connection closed; reply fits the client's 256-byte part limit and decodes to the callback's verdict (lemma resp-roundtrip).",
  note="Assumed: bufio.Scanner / net.Conn contracts; the callback is an arbitrary function observed through ghost state. "
       "Concurrency clause (independent connections) rests on handleConnection's frame (no Server field written), not on a schedule exploration. PAM-module decodability is not decided (C code).",
  design="3 C05"),
}

NOT_APPLICABLE = {
 "C10": "liveness under all goroutine schedules: pre/postconditions on sequential functions cannot state 'eventually answered'; no concurrency logic for Go channels is available here",
 "C11": "linearizability quantifies over concurrent histories and dispatcher scheduling; per-function contracts do not decide it",
 "C20": "pam/pam_whawty.c is C; no deductive C verifier is installed and govc reads Go SSA only",
}
PENDING = "not claimed in this commit: contracts for the anchored functions are not yet complete (see DESIGN.md section 0 for the plan)"

def main():
    props = [json.loads(l) for l in open('/verif/properties.jsonl')]
    checks = []
    na = []
    for p in props:
        pid = p['id']
        if pid in CLAIMED:
            c = CLAIMED[pid]
            checks.append({
                "property_id": pid,
                "quick_cmd": "./check.sh %s quick" % pid,
                "thorough_cmd": "./check.sh %s thorough" % pid,
                "evidence_file": "/verif/evidence/%s.json" % pid,
                "replay_cmd_template": "cat {path}",
                "engine": "govc",
                "level_claimed": {"category": "proof", "text": c['text'], "design_ref": c['design']},
                "level_note": c['note'],
                "technique": "contract-based deductive verification: weakest-precondition VCs over go/ssa of the real code, discharged by z3/cvc5",
            })
        else:
            na.append({"property_id": pid, "reason": NOT_APPLICABLE.get(pid, PENDING)})
    try:
        commits = subprocess.check_output(['git', '-C', '/repo', 'log', '--format=%H %s', 'c68a82b..HEAD'], text=True).strip().split('\n')
    except Exception:
        commits = []
    hooks = [c.split()[0] for c in commits if ' verif:' in c]
    m = {
        "version": 1,
        "setup_cmd": "./setup.sh",
        "hooks": {
            "guard": "verif",
            "enable": "govc loads /repo with go/packages BuildFlags -tags=verif; the tag only adds zz_verif_contracts.go files (build constraint, package clause, comments)",
            "baseline_off_cmd": "cd /repo && GOFLAGS=-mod=mod GOPROXY=off GOSUMDB=off GOTOOLCHAIN=local go test -json -vet=off -count=1 -timeout 25m ./...",
            "source_commits": hooks,
            "add_only": True,
        },
        "engines": [{"name": "govc", "path": "/verif/govc", "serves_properties": sorted(CLAIMED), "kind_free_text": "verification-condition generator for Go (go/ssa naive form) with s-expression contracts; SMT back ends z3 4.8.12, z3 5.1.0, cvc5 1.0.3"}],
        "checks": checks,
        "not_applicable": na,
        "notes": "Every check rebuilds the SSA and all VCs from /repo's working tree. Known findings: /verif/known_findings.txt.",
    }
    json.dump(m, open('/verif/MANIFEST.json', 'w'), indent=1)
    print("claimed:", sorted(CLAIMED), "hooks:", len(hooks))

main()
