#!/usr/bin/env python3
"""Regenerates /verif/MANIFEST.json from the table below (kept next to the checks it describes)."""
import json, subprocess

CLAIMED = {
 "C13": dict(
  text="Deductive proof over the real Go code (go/ssa of /repo, contracts in sasl/zz_verif_contracts.go): the split function's full case table, "
       "the decoder and encoder loops (inductive invariants, no bound), Request/Response Encode/Decode against the wire-format spec functions, "
       "plus machine-checked lemmas over those contracts: fragment-independence (stability of the split function under input extension), "
       "decode(encode(x)) = x for all contents up to the limit, over-limit refusal, and re-encoding of consumed bytes. All inputs, all iterations.",
  note="Assumed: bufio.Scanner contract (DESIGN App. A) incl. the reader's terminal-error clause; io.Writer.Write; binary.BigEndian as u16/be16 "
       "(lemmas prove the concrete definitions satisfy the axioms); strings are byte strings. Not decided: equality with the PAM module's C encoder; Marshal/Unmarshal aliasing of bytes.Buffer.",
  design="3 C13"),
 "C05": dict(
  text="Deductive proof of handleConnection over one symbolic byte stream (so truncated/padded/fragmented/abandoned streams are all covered): "
       "callback at most once and only with the four decoded fields, positive reply only if decode ok and callback approved without error, "
       "exactly one reply written and the connection closed; reply fits the client's 256-byte part limit and decodes to the callback's verdict (lemma resp-roundtrip).",
  note="Assumed: bufio.Scanner / net.Conn contracts; the callback is an arbitrary function observed through ghost state. "
       "Concurrency clause (independent connections) rests on handleConnection's frame (no Server field written), not on a schedule exploration. PAM-module decodability is not decided (C code).",
  design="3 C05"),
 "C07": dict(
  text="Deductive proof of the session factory over an idealised AEAD: the key is a fresh 16-byte crypto/rand draw (failure of the draw is an error), every token uses a "
       "new 12-byte draw as nonce, Generate seals exactly '<user>:<true|false>:<unix time>' and emits base64url(nonce):base64url(ciphertext); Check accepts only a "
       "(nonce, ciphertext) this factory's key sealed, whose plaintext splits into colon-free user, strict true/false and a decimal time with 0 <= age <= lifetime. "
       "Lemma token-identity: an accepted plaintext of the issued form yields exactly the issued user and flag.",
  note="Assumed: AES-GCM as an ideal AEAD (Open succeeds only on what Seal produced under the same key; openf(sealf(p)) = p), distinct crypto/rand draws differ, "
       "base64 is injective on its image, the clock does not step backwards inside one function. The base64 text layer itself is not part of the claim (as the property says).",
  design="3 C07"),
 "C04": dict(
  text="Deductive proof of the wiring of all five frontends and of the request funnel: each frontend passes exactly the decoded credentials to Store.Authenticate "
       "(LDAP: the bind name cut at the first '@'), accepts iff the store accepted without error (HTTP 200 / LDAP success / SASL ok / exit 0,1,3), the wrapper sends them unchanged "
       "and returns the received results in order, the dispatcher calls authenticate with the request's fields and answers on the request's channel with that call's result, "
       "and authenticate returns Dir.Authenticate's five results unchanged; Dir.Authenticate's 'error implies denial' is proved over the store code.",
  note="Assumed: what r.BasicAuth(), json.Decoder, the LDAP library and urfave/cli hand over are the submitted credentials (symbolic inputs); a value received from a reply channel "
       "is the value the dispatcher's checked send produced (channel hand-off). SASL field limits are C13/C05.",
  design="3 C04"),
 "C06": dict(
  text="Deductive proof of call-site authorisation in all eight handlers: every store mutation / listing call is dominated by a Check of the request's own token that returned 200 "
       "with the admin flag (update: admin, or token user = target, or a successful Authenticate of target with the old password, and exactly one credential kind), with the request's "
       "own arguments; a token is generated only after a successful Authenticate and names that user and the store-reported admin flag; status 200 only if the store call happened and "
       "returned nil; a list is put into a response only from the store's result under a valid admin session; exactly one response per request. Check's own meaning is C07's proof.",
  note="Assumed: JSON decoding fills the request struct with arbitrary values (that is the symbolic input); mux routing; channel hand-off to the dispatcher. 'Store byte-for-byte "
       "unchanged on refusal' rests on: no mutating call was made on those paths (proved) and C15 for failed store calls.",
  design="3 C06"),
 "C12": dict(
  text="Deductive proof of the safety clauses: Authenticate reports upgradeable exactly as (default != record's parameter-set id); an upgrade request is queued only for a successful, "
       "upgradeable login, only if an upgrade channel is configured, and carries exactly that login's credentials; with upgrades off nothing is ever sent and authentication does not touch the "
       "file system (frame); local upgrades go through the ordinary policy-checked update, which writes a record under the default set for exactly that password keeping auxiliary lines and "
       "extension; the remote upgrade request carries the login password as old password only.",
  note="Not decided: the convergence clause ('on an idle agent the rewrite does happen') is liveness, and interleaving with other writers is C11. Assumed: channel hand-off.",
  design="3 C12"),
 "C17": dict(
  text="Deductive proof that every write path (init, add, update; CLI, HTTP API and local upgrade all funnel into these three functions) calls the store only when the configured "
       "policy accepted exactly (password, username), that a refusal returns an error without any store call, that accepted passwords are not refused on policy grounds, that the zxcvbn "
       "condition parser accepts exactly the documented grammar and stores the matching comparator, each comparator is >= on its field, and that a policy constructor error stops NewStore "
       "before the dispatcher is started.",
  note="Assumed: the zxcvbn scorer is an uninterpreted function of (password, [username, 'whawty']); float thresholds are exact; policy objects are only built by newZXCVBNPolicy.",
  design="3 C17"),
}

NOT_APPLICABLE = {
 "C10": "liveness under all goroutine schedules: pre/postconditions on sequential functions cannot state 'eventually answered'; no concurrency logic for Go channels is available here",
 "C11": "linearizability quantifies over concurrent histories and dispatcher scheduling; per-function contracts do not decide it",
 "C20": "pam/pam_whawty.c is C; no deductive C verifier is installed and govc reads Go SSA only",
}
PENDING = "not claimed in this commit: contracts for the anchored functions are not yet complete (see DESIGN.md section 0 for the plan)"

def main():
    props = [json.loads(l) for l in open('/verif/properties.jsonl')]
    checks = []
    na = []
    for p in props:
        pid = p['id']
        if pid in CLAIMED:
            c = CLAIMED[pid]
            checks.append({
                "property_id": pid,
                "quick_cmd": "./check.sh %s quick" % pid,
                "thorough_cmd": "./check.sh %s thorough" % pid,
                "evidence_file": "/verif/evidence/%s.json" % pid,
                "replay_cmd_template": "cat {path}",
                "engine": "govc",
                "level_claimed": {"category": "proof", "text": c['text'], "design_ref": c['design']},
                "level_note": c['note'],
                "technique": "contract-based deductive verification: weakest-precondition VCs over go/ssa of the real code, discharged by z3/cvc5",
            })
        else:
            na.append({"property_id": pid, "reason": NOT_APPLICABLE.get(pid, PENDING)})
    try:
        commits = subprocess.check_output(['git', '-C', '/repo', 'log', '--format=%H %s', 'c68a82b..HEAD'], text=True).strip().split('\n')
    except Exception:
        commits = []
    hooks = [c.split()[0] for c in commits if ' verif:' in c]
    m = {
        "version": 1,
        "setup_cmd": "./setup.sh",
        "hooks": {
            "guard": "verif",
            "enable": "govc loads /repo with go/packages BuildFlags -tags=verif; the tag only adds zz_verif_contracts.go files (build constraint, package clause, comments)",
            "baseline_off_cmd": "cd /repo && GOFLAGS=-mod=mod GOPROXY=off GOSUMDB=off GOTOOLCHAIN=local go test -json -vet=off -count=1 -timeout 25m ./...",
            "source_commits": hooks,
            "add_only": True,
        },
        "engines": [{"name": "govc", "path": "/verif/govc", "serves_properties": sorted(CLAIMED), "kind_free_text": "verification-condition generator for Go (go/ssa naive form) with s-expression contracts; SMT back ends z3 4.8.12, z3 5.1.0, cvc5 1.0.3"}],
        "checks": checks,
        "not_applicable": na,
        "notes": "Every check rebuilds the SSA and all VCs from /repo's working tree. Known findings: /verif/known_findings.txt.",
    }
    json.dump(m, open('/verif/MANIFEST.json', 'w'), indent=1)
    print("claimed:", sorted(CLAIMED), "hooks:", len(hooks))

main()
