#!/usr/bin/env python3
"""Bounded conformance tests of the ASSUMED part of the proofs (thorough tier; labelled bounded, never counted as proved).

The proofs assume (a) `extern` contracts of library functions and (b) `axiom`s about uninterpreted functions that stand for
library behaviour (path algebra, decimal literals, base64, big-endian helpers, the user-name grammar, key lengths).
This tool evaluates those very clauses -- read from /verif/contracts/*.vc, not re-typed -- on generated inputs, with every
uninterpreted function interpreted by the REAL library (a Go oracle built inside package store with `go test -c -overlay`,
nothing is written to /repo) or, where the contracts give one, by its `concrete` definition. A clause that evaluates to
false on some input is a wrong assumption and is reported.

Bounded: the input corpus (boundary strings / paths / integers below; at most LIMIT instances per clause); nested
quantifiers are instantiated over the same corpus. Stateful contracts (file system, streams, HTTP, hooks, AEAD ghost
state) are not covered and are listed as such.

usage: conformance.py [--json out.json] [--only name,...]      exit 0 = no clause contradicted, 1 = some clause false
"""
import json, os, re, subprocess, sys, itertools, tempfile, random

VERIF = os.path.dirname(os.path.dirname(os.path.abspath(__file__)))
REPO = os.environ.get('GOVC_REPO', '/repo')
ENV = dict(os.environ, GOFLAGS='-mod=mod', GOPROXY='off', GOSUMDB='off', GOTOOLCHAIN='local', GOVC_ORACLE='1')
LIMIT = 1500

# ---------------------------------------------------------------- s-expressions
class Sym(str):
    pass

class Str:
    __slots__ = ('v',)
    def __init__(self, v): self.v = v

ESC = {'n': '\n', 't': '\t', 'r': '\r', '0': '\0', '\\': '\\', '"': '"'}

def parse_all(text):
    i, n = 0, len(text)
    out, stack = [], []
    def add(x):
        (stack[-1] if stack else out).append(x)
    while i < n:
        c = text[i]
        if c in ' \t\r\n':
            i += 1
        elif c == ';':
            while i < n and text[i] != '\n':
                i += 1
        elif c == '(':
            stack.append([]); i += 1
        elif c == ')':
            x = stack.pop(); add(x); i += 1
        elif c == '"':
            j = i + 1; buf = []
            while True:
                ch = text[j]
                if ch == '\\' and j + 1 < n:
                    nx = text[j + 1]
                    if nx == 'u' and text[j + 2] == '{':
                        e = text.index('}', j)
                        buf.append(chr(int(text[j + 3:e], 16))); j = e + 1; continue
                    if nx in ESC:
                        buf.append(ESC[nx])
                    else:
                        buf.append('\\' + nx)
                    j += 2; continue
                if ch == '"':
                    if j + 1 < n and text[j + 1] == '"':
                        buf.append('"'); j += 2; continue
                    break
                buf.append(ch); j += 1
            add(Str(''.join(buf))); i = j + 1
        elif c == '|':
            j = text.index('|', i + 1)
            add(Sym(text[i + 1:j])); i = j + 1
        else:
            j = i
            while j < n and text[j] not in ' \t\r\n()':
                j += 1
            add(Sym(text[i:j])); i = j
    return out

# ---------------------------------------------------------------- declarations
class Decls:
    def __init__(self):
        self.spec, self.macro, self.axiom, self.extern, self.uf, self.concrete, self.lemma = {}, {}, {}, {}, {}, {}, {}
    def load(self, path):
        for f in parse_all(open(path).read()):
            if not isinstance(f, list) or not f:
                continue
            h = f[0]
            if h == 'spec':
                self.spec[str(f[1][0])] = ([str(p[0]) for p in f[1][1:]], f[3])
            elif h == 'macro':
                self.macro[str(f[1][0])] = ([str(p) for p in f[1][1:]], f[2:])
            elif h in ('axiom', 'lemma'):
                body = [x for x in f[2:] if not (isinstance(x, list) and x and x[0] in ('needs', 'use', 'always', 'props', 'by'))]
                (self.axiom if h == 'axiom' else self.lemma)[str(f[1])] = body[0] if body else Sym('true')
            elif h in ('extern', 'iface'):
                name = f[1].v
                cl = {'params': [str(p) for p in f[2]], 'requires': [], 'ensures': [], 'modifies': []}
                for c in f[3:]:
                    if isinstance(c, list) and c and c[0] in ('requires', 'ensures'):
                        body = [x for x in c[2:] if not (isinstance(x, list) and x and x[0] == 'props')]
                        cl[str(c[0])].append((str(c[1]), body[0]))
                    elif isinstance(c, list) and c and c[0] == 'modifies':
                        cl['modifies'] += c[1:]
                self.extern[name] = cl
            elif h == 'uf':
                self.uf[str(f[1])] = ([str(s) for s in f[2]], str(f[3]) if not isinstance(f[3], list) else 'Array')
            elif h == 'concrete':
                self.concrete[str(f[1])] = str(f[2])

class Untestable(Exception):
    pass

# ---------------------------------------------------------------- oracle process
class Oracle:
    def __init__(self):
        self.tmp = tempfile.mkdtemp(prefix='govc-conf-')
        ov = os.path.join(self.tmp, 'ov.json')
        json.dump({'Replace': {os.path.join(REPO, 'store', 'zz_oracle_test.go'): os.path.join(VERIF, 'conformance', 'zz_oracle_test.go.txt')}}, open(ov, 'w'))
        self.bin = os.path.join(self.tmp, 'store.test')
        r = subprocess.run(['go', 'test', '-c', '-o', self.bin, '-overlay', ov, '-vet=off', './store'], cwd=REPO, env=ENV, capture_output=True, text=True)
        if r.returncode != 0:
            raise RuntimeError('cannot build the oracle: ' + r.stderr[-2000:])
        self.p = subprocess.Popen([self.bin, '-test.run', '^TestOracle$'], stdin=subprocess.PIPE, stdout=subprocess.PIPE, env=ENV, text=True, bufsize=1)
        self.cache = {}
        self.calls = 0
    def call(self, f, args):
        key = json.dumps([f, args], sort_keys=True)
        if key in self.cache:
            return self.cache[key]
        self.calls += 1
        self.p.stdin.write(json.dumps({'f': f, 'a': args}) + '\n'); self.p.stdin.flush()
        while True:
            line = self.p.stdout.readline()
            if not line:
                raise RuntimeError('oracle died')
            if line.startswith('{'):
                break
        r = json.loads(line)
        self.cache[key] = r
        return r
    def close(self):
        try:
            self.p.stdin.close(); self.p.wait(timeout=5)
        except Exception:
            self.p.kill()
        subprocess.run(['rm', '-rf', self.tmp])

def to_wire(v):
    if isinstance(v, bool): return v
    if isinstance(v, int): return str(v)
    if isinstance(v, str): return v
    if isinstance(v, (list, tuple)): return [to_wire(x) for x in v]
    raise Untestable('cannot send %r' % (v,))

def from_wire(v):
    if isinstance(v, dict) and 'i' in v: return int(v['i'])
    if isinstance(v, dict): return {k: from_wire(x) for k, x in v.items()}
    if isinstance(v, list): return [from_wire(x) for x in v]
    return v

# ---------------------------------------------------------------- evaluation
def re_to_py(e, ev):
    if isinstance(e, list):
        h = e[0]
        if h == 're.++': return ''.join(re_to_py(x, ev) for x in e[1:])
        if h == 're.union': return '(?:' + '|'.join(re_to_py(x, ev) for x in e[1:]) + ')'
        if h == 're.*': return '(?:' + re_to_py(e[1], ev) + ')*'
        if h == 're.+': return '(?:' + re_to_py(e[1], ev) + ')+'
        if h == 're.opt': return '(?:' + re_to_py(e[1], ev) + ')?'
        if h == 're.range': return '[' + re.escape(ev(e[1])) + '-' + re.escape(ev(e[2])) + ']'
        if h == 'str.to_re': return re.escape(ev(e[1]))
    if e == 're.allchar': return '[\\s\\S]'
    raise Untestable('regex form %r' % (e,))

class Eval:
    def __init__(self, D, oracle, corpus):
        self.D, self.o, self.corpus = D, oracle, corpus
        self.uf_impl = {}      # name -> python callable overriding the oracle

    def subst(self, e, m):
        if isinstance(e, Sym): return m.get(str(e), e)
        if isinstance(e, list): return [self.subst(x, m) for x in e]
        return e

    def uf(self, name, args):
        if name in self.uf_impl:
            return self.uf_impl[name](*args)
        if name in self.D.concrete:
            ps, body = self.D.spec[self.D.concrete[name]]
            return self.ev(body, dict(zip(ps, args)))
        r = self.o.call(name, [to_wire(a) for a in args])
        if 'e' in r:
            raise Untestable('oracle: ' + r['e'])
        return from_wire(r['r'])

    def ev(self, e, env):
        if isinstance(e, Str): return e.v
        if isinstance(e, Sym):
            s = str(e)
            if s in env: return env[s]
            if s == 'true': return True
            if s == 'false': return False
            if s == 'nil': return 0
            if re.fullmatch(r'-?\d+', s): return int(s)
            if s in CONSTS: return CONSTS[s]
            raise Untestable('free symbol ' + s)
        h = e[0]
        if isinstance(h, list):
            raise Untestable('form %r' % (e,))
        h = str(h)
        a = e[1:]
        E = lambda x: self.ev(x, env)
        if h == 'and': return all(E(x) for x in a)
        if h == 'or': return any(E(x) for x in a)
        if h == 'not': return not E(a[0])
        if h == '=>':
            for x in a[:-1]:
                if not E(x): return True
            return E(a[-1])
        if h == 'ite': return E(a[1]) if E(a[0]) else E(a[2])
        if h == '=':
            vs = [E(x) for x in a]; return all(v == vs[0] for v in vs)
        if h == 'distinct':
            vs = [E(x) for x in a]; return len(set(map(repr, vs))) == len(vs)
        if h == '!': return E(a[0])
        if h == 'let':
            env2 = dict(env)
            for b in a[0]: env2[str(b[0])] = E(b[1])
            return self.ev(a[1], env2)
        if h in ('forall', 'exists'):
            vs = [(str(v[0]), str(v[1])) for v in a[0]]
            doms = [self.corpus.small(s) for _, s in vs]
            it = (self.ev(a[1], dict(env, **dict(zip([n for n, _ in vs], c)))) for c in itertools.product(*doms))
            return all(it) if h == 'forall' else any(it)
        if h == '+': return sum(E(x) for x in a)
        if h == '-':
            vs = [E(x) for x in a]; return -vs[0] if len(vs) == 1 else vs[0] - sum(vs[1:])
        if h == '*':
            r = 1
            for x in a: r *= E(x)
            return r
        if h == 'div':
            x, y = E(a[0]), E(a[1])
            if y == 0: raise Untestable('div 0')
            r = x % abs(y)      # SMT-LIB: x = y*q + r with 0 <= r < |y|
            return (x - r) // y
        if h == 'mod':
            x, y = E(a[0]), E(a[1])
            if y == 0: raise Untestable('mod 0')
            return x % abs(y)
        if h in ('<', '<=', '>', '>='):
            vs = [E(x) for x in a]
            op = {'<': lambda p, q: p < q, '<=': lambda p, q: p <= q, '>': lambda p, q: p > q, '>=': lambda p, q: p >= q}[h]
            return all(op(vs[i], vs[i + 1]) for i in range(len(vs) - 1))
        if h == 'to_real': return E(a[0])
        if h == 'str.++': return ''.join(E(x) for x in a)
        if h == 'str.len': return len(E(a[0]))
        if h == 'str.contains': return E(a[1]) in E(a[0])
        if h == 'str.prefixof': return E(a[1]).startswith(E(a[0]))
        if h == 'str.suffixof': return E(a[1]).endswith(E(a[0]))
        if h == 'str.at':
            s, i = E(a[0]), E(a[1]); return s[i] if 0 <= i < len(s) else ''
        if h == 'str.substr':
            s, i, n = E(a[0]), E(a[1]), E(a[2])
            if i < 0 or i >= len(s) or n <= 0: return ''
            return s[i:i + n]
        if h == 'str.indexof':
            s, t, i = E(a[0]), E(a[1]), E(a[2])
            if i < 0 or i > len(s): return -1
            return s.find(t, i)
        if h == 'str.replace':
            s, t, u = E(a[0]), E(a[1]), E(a[2]); return s.replace(t, u, 1) if t in s else s
        if h == 'str.to_code':
            s = E(a[0]); return ord(s) if len(s) == 1 else -1
        if h == 'str.from_code':
            n = E(a[0]); return chr(n) if 0 <= n < 0x30000 else ''
        if h == 'str.to_int':
            s = E(a[0]); return int(s) if re.fullmatch(r'[0-9]+', s) else -1
        if h == 'str.from_int':
            n = E(a[0]); return str(n) if n >= 0 else ''
        if h == 'str.in_re':
            return re.fullmatch(re_to_py(a[1], lambda x: self.ev(x, env)), E(a[0]), re.S) is not None
        if h == 'select':
            arr = E(a[0]); return arr[E(a[1])]
        # contract-language forms over concrete Go values
        if h == 'len':
            v = E(a[0]); return len(v)
        if h == 'content': return E(a[0])
        if h == 'elem': return E(a[0])[E(a[1])]
        if h == 'isnil':
            v = E(a[0]); return v is None
        if h == 'old':
            return self.ev(a[0], env.get('$old', env))
        if h == 'global':
            return ('global', a[0].v)
        if h in self.D.macro:
            ps, body = self.D.macro[h]
            return self.ev(self.subst(body[0], dict(zip(ps, a))), env)
        if h in self.D.spec:
            ps, body = self.D.spec[h]
            return self.ev(body, dict(zip(ps, [E(x) for x in a])))
        if h in self.D.uf or h in self.uf_impl:
            return self.uf(h, [E(x) for x in a])
        raise Untestable('form ' + h)

CONSTS = {'b64url': 1, 'b64std': 2}
_D = 'definitional: names what each implementation in /repo must compute; the implementations are verified against it (not a library assumption)'
DEFINITIONAL = {'hdef-fmt': _D, 'hdef-valid': _D, 'hdef-check': _D, 'hdef-gen': _D, 'hasher-def': _D, 'policyok-def': _D,
                'fields': 'recursive definition of the wire format (spec side of C13)', 'fields-def': 'recursive definition of the wire format (spec side of C13)',
                'wirep': 'recursive definition of the wire format (spec side of C13)', 'wirep-def': 'recursive definition of the wire format (spec side of C13)',
                'frest-unfold': 'recursive definition of the wire format (spec side of C13)'}

# ---------------------------------------------------------------- corpus
class Corpus:
    def __init__(self, seed):
        rnd = random.Random(seed)
        names = ['a', 'alice', 'A9', 'a.b', 'a@b', 'a-b_c', 'x.user', 'x.admin', '.tmp', '.', '..', '-bad', '', '.hidden', 'a/b', '../x', 'a:b',
                 'a\nb', 'a\0b', 'ä'.encode('utf-8').decode('latin-1'), 'a b', 'user.user', 'Z', '0', 'a..b', 'a.', '@', '_', 'a/', '/a']
        bases = ['/b', '/b/', 'b', './b', '/', '.', '', '/b/../c', '/b//c', 'b/.', '/b/.tmp', '//', '/b/c/', '../s', '/b/./']
        decs = ['0', '1', '-1', '+5', '007', '9223372036854775807', '9223372036854775808', '-9223372036854775808', '-9223372036854775809',
                '18446744073709551615', '18446744073709551616', '1_0', ' 1', '1 ', '0x10', '1e3', '', '-', '+', '12:3', '12\n', '٣'.encode('utf-8').decode('latin-1'), '1.0', '-0', '00']
        b64s = ['', 'QQ==', 'QUI=', 'QUJD', 'QUJD\n', 'QUJD\r\n', 'Q\nUJD', 'QUJ', 'QUJD=', 'QQ', '-_-_', '+/+/', 'QUJD ', 'QU:D', '====', 'A', 'AA=A']
        raws = ['', 'A', 'AB', 'ABC', '\0', '\xff\xfe\xfd', 'hello world', '\n', ':::', ''.join(chr(rnd.randrange(256)) for _ in range(33)), ''.join(chr(rnd.randrange(256)) for _ in range(16))]
        recs = ['a:b', 'a:b:c', 'a:b:c:d', 'a:b:c:d:e', ':', '::', ':::', 'abc', '', 'a::b', ':a', 'a:', 'hmac_sha256_scrypt:1:2:c2FsdA==:aGFzaA==\n', 'x\ny:z']
        two = ['\0\0', '\0\1', '\1\0', '\xff\xff', 'AB', '\x01\x00', '\x00\xff']
        self.S = list(dict.fromkeys(names + bases + decs + b64s + raws + recs + two))
        self.small_S = list(dict.fromkeys(['', 'a', 'a.b', '.tmp', 'x.user', 'a/b', ':', 'a:b', '12', 'QUJD', '/b', '..']))
        self.I = [0, 1, 2, 3, 4, 5, 7, 8, 10, 12, 16, 31, 32, 62, 63, 64, 255, 256, 257, 65535, 65536, -1, -2, 10**9, 2**31 - 1, 2**31, 2**32, 2**53, 2**63 - 1,
                  2**63, 2**64 - 1, 2**64, -2**63, -2**63 - 1, 1700000000, 999999999]
        self.small_I = [0, 1, 2, 12, 255, 256, 65535, -1, 2**63 - 1]
        self.names, self.bases, self.decs, self.b64s, self.raws, self.recs, self.two = names, bases, decs, b64s, raws, recs, two
    def of(self, sort):
        return {'String': self.S, 'Int': self.I, 'Bool': [False, True]}[sort]
    def small(self, sort):
        return {'String': self.small_S, 'Int': self.small_I, 'Bool': [False, True]}[sort]

# per-variable domains for axioms whose variables have a meaning (otherwise the whole corpus of the sort is used)
def axiom_domains(C):
    enc = [1, 2]
    return {
        'paths': {'b': C.bases, 'u': C.names},
        'pext': {'s': C.names + C.bases + ['a/b.c', 'a.b/c', 'a.b/c.d', 'x.user.admin'], 'u': C.names + C.bases},
        'validname': {'s': C.S},
        'decimals': {'s': C.S, 'n': C.I},
        'itoa': {'n': [i for i in C.I if -2**63 <= i < 2**63]},
        'zeros': {'n': [0, 1, 2, 16, 32, 255, 4096]},
        'pow2': {'n': list(range(0, 62))},
        'b64': {'e': enc, 'x': C.raws + C.names},
        'b64-newline': {'e': enc, 'x': C.raws + C.names},
        'cuts': {'s': C.S}, 'cut-first': {'x': C.S, 'r': C.S},
        'be16': {'n': C.I + list(range(0, 65536, 257)), 's': C.two + C.S},
        'primitives': {'p': ['', 'pw', 'x' * 70], 's': ['saltsalt', '12345678' * 2], 't': [1, 2], 'm': [8, 64], 'th': [1, 2], 'l': [0, 1, 16, 32, 64],
                       'k': ['', 'k', 'K' * 65], 'x': C.raws[:6]},
        'aead': {'k': ['0123456789abcdef', '\0' * 16, 'K' * 32], 'n': ['123456789012', '\0' * 12], 'p': C.raws[:8]},
        'draw': None, 'dcount': None,
    }

# generators for extern contracts: list of argument tuples (Go values: str, int, bool, list)
def extern_inputs(C):
    enc = [1, 2]
    P = itertools.product
    return {
        'strings.SplitN': [(s, ':', n) for s in C.S for n in (2, 3, 4)],
        'strings.Split': [(s, ':') for s in C.S],
        'strings.Cut': [(s, sep) for s in C.S for sep in (':', '@', 'ab', '\n', '.')],
        'strings.TrimSuffix': [(s, x) for s in C.S for x in ('.user', '.admin', '', 'a', '\n')],
        'strings.HasPrefix': [(s, x) for s in C.S for x in ('.', '', 'a', '/b')],
        'strings.HasSuffix': [(s, x) for s in C.S for x in ('.user', '', 'a', '\n')],
        'strings.TrimPrefix': [(s, x) for s in C.S for x in ('.', '', 'a', '/b', 'a:')],
        'strings.Contains': [(s, x) for s in C.S for x in (':', '', 'a', '..', '\n')],
        'strings.Index': [(s, x) for s in C.S for x in (':', '', 'a', '..', '\n')],
        'strings.IndexByte': [(s, c) for s in C.S for c in (58, 0, 97, 10, 255)],
        'strings.Compare': [(a, b) for a in C.small_S for b in C.small_S],
        'bytes.Equal': [(x, y) for x in C.raws + ['ab', 'abc'] for y in C.raws + ['ab', 'abd']],
        'strconv.Itoa': [(i,) for i in C.I if -2**63 <= i < 2**63],
        'strconv.FormatInt': [(i, 10) for i in C.I if -2**63 <= i < 2**63],
        'strconv.FormatUint': [(i, 10) for i in C.I if 0 <= i < 2**64],
        'strconv.FormatBool': [(True,), (False,)],
        'strconv.ParseInt': [(s, 10, 64) for s in C.S] + [(str(i), 10, 64) for i in C.I],
        'strconv.ParseUint': [(s, 10, b) for s in C.S for b in (0, 64)] + [(str(i), 10, 64) for i in C.I],
        '(*regexp.Regexp).MatchString': [(('global', 'store.userNameRe'), s) for s in C.S],
        '(encoding/binary.bigEndian).Uint16': [(0, s) for s in C.two + [t + 'xyz' for t in C.two]],
        '(encoding/binary.bigEndian).PutUint16': [(0, s, v) for s in ('\0\0', 'abcd', '\xff\xff\xff') for v in (0, 1, 255, 256, 258, 65535)],
        'crypto/subtle.ConstantTimeCompare': [(x, y) for x in C.raws + ['ab', 'abc'] for y in C.raws + ['ab', 'abd']],
        '(*encoding/base64.Encoding).EncodeToString': [(e, x) for e in enc for x in C.raws],
        '(*encoding/base64.Encoding).DecodeString': [(e, x) for e in enc for x in C.b64s + C.names],
        'time.Unix': [(s, n) for s in (0, 1, 1700000000, -1, 2**31) for n in (0, 1, 999999999)],
        '(time.Time).Unix': [(t,) for t in (0, 1, 999999999, 10**9, 1700000000 * 10**9 + 5, -1, -10**9, -10**9 - 1)],
        'path/filepath.Join': [([b, u],) for b in C.bases for u in C.names],
        # boundary values on purpose: what the preconditions do not exclude must not panic
        'argon2.IDKey': [(p, s, t, m, th, l) for p in ('', 'pw') for s in ('saltsalt', '') for t in (0, 1, 2) for m in (0, 8) for th in (0, 1, 2) for l in (0, 1, 16, 32)],
        'scrypt.Key': [(p, s, N, r, pp, l) for p in ('', 'pw') for s in ('salt', '') for N in (0, 1, 2, 3, 16, 1024) for r in (0, 1, 8) for pp in (0, 1) for l in (0, 32)],
    }

def strip_quant(body):
    """split a top-level (and (forall ..) (forall ..)) / (forall ...) into [(vars, matrix)]"""
    if isinstance(body, list) and body and body[0] == 'and' and all(isinstance(x, list) and x and x[0] in ('forall', 'and', '=', 'not', '>', '>=', '<', '<=', '=>') for x in body[1:]):
        out = []
        for x in body[1:]:
            out += strip_quant(x)
        return out
    if isinstance(body, list) and body and body[0] == 'forall':
        return [([(str(v[0]), str(v[1])) for v in body[1]], body[2])]
    return [([], body)]

def main():
    args = sys.argv[1:]
    out_json = None
    only = None
    while args:
        a = args.pop(0)
        if a == '--json': out_json = args.pop(0)
        elif a == '--only': only = set(args.pop(0).split(','))
    D = Decls()
    cdir = os.path.join(VERIF, 'contracts')
    for f in sorted(os.listdir(cdir)):
        if f.endswith('.vc'):
            D.load(os.path.join(cdir, f))
    C = Corpus(int(os.environ.get('VERIF_SEED', '0') or 0))
    orc = Oracle()
    ev = Eval(D, orc, C)
    # validname: the proofs use the schema grammar (validnamec, an SMT regular expression); the extern contract of MatchString
    # claims the compiled literal behaves like it -- so validname is evaluated by its concrete definition and the real regexp is the extern.
    results, failures = [], []
    doms = axiom_domains(C)
    try:
        for name, body in sorted(D.axiom.items()):
            if only and name not in only: continue
            if name in doms and doms[name] is None:
                results.append({'kind': 'axiom', 'name': name, 'status': 'not-testable', 'why': 'about ghost/random state'}); continue
            if name in DEFINITIONAL:
                results.append({'kind': 'axiom', 'name': name, 'status': 'not-covered', 'why': DEFINITIONAL[name]}); continue
            if name not in doms:
                results.append({'kind': 'axiom', 'name': name, 'status': 'not-covered'}); continue
            n = bad = skipped = 0
            first_bad = None
            try:
                for vars_, matrix in strip_quant(body):
                    dl = [doms[name].get(v, C.of(s)) for v, s in vars_]
                    combos = itertools.product(*dl) if dl else [()]
                    total = 1
                    for d in dl: total *= len(d)
                    if total > LIMIT:
                        rnd = random.Random(1)
                        combos = [tuple(rnd.choice(d) for d in dl) for _ in range(LIMIT)]
                    for c in combos:
                        env = dict(zip([v for v, _ in vars_], c))
                        try:
                            ok = ev.ev(matrix, env)
                        except Untestable as u:
                            skipped += 1
                            if 'form ' in str(u) or 'free symbol' in str(u): raise
                            continue
                        n += 1
                        if not ok:
                            bad += 1
                            first_bad = first_bad or env
                st = 'holds-on-corpus' if bad == 0 else 'CONTRADICTED'
                if n == 0:
                    results.append({'kind': 'axiom', 'name': name, 'status': 'not-testable', 'why': 'no instance could be evaluated'}); continue
                results.append({'kind': 'axiom', 'name': name, 'status': st, 'instances': n, 'skipped': skipped, **({'counterexample': first_bad} if first_bad else {})})
                if bad: failures.append('axiom ' + name + ' false for ' + json.dumps(first_bad))
            except Untestable as u:
                results.append({'kind': 'axiom', 'name': name, 'status': 'not-testable', 'why': str(u)})
        gens = extern_inputs(C)
        for name, ct in sorted(D.extern.items()):
            if only and name not in only: continue
            if name not in gens:
                pure = not ct['modifies'] and ct['ensures']
                results.append({'kind': 'extern', 'name': name, 'status': 'not-covered', 'why': 'stateful or nothing assumed' if not pure else 'no generator'}); continue
            n = bad = filtered = 0
            first_bad = None
            try:
                for tup in gens[name][:LIMIT * 2]:
                    env = dict(zip(ct['params'], tup))
                    try:
                        if not all(ev.ev(b, env) for _, b in ct['requires']):
                            filtered += 1; continue
                    except Untestable:
                        filtered += 1; continue
                    r = orc.call(name, [to_wire(x if not (isinstance(x, tuple) and x and x[0] == 'global') else 0) for x in tup])
                    if 'e' in r:
                        # the real function panicked or the oracle cannot run it although the precondition holds
                        bad += 1; first_bad = first_bad or {'args': list(map(repr, tup)), 'error': r['e']}; n += 1; continue
                    res = from_wire(r['r'])
                    env2 = dict(env); env2['$old'] = env
                    for i, v in enumerate(res):
                        if isinstance(v, dict):
                            for k, x in v.items():
                                if k.startswith('content:'): env2[k[8:]] = x
                        else:
                            env2['$r%d' % i] = v
                    n += 1
                    for label, b in ct['ensures']:
                        try:
                            ok = ev.ev(b, env2)
                        except Untestable as u:
                            if 'form ' in str(u) or 'free symbol' in str(u): raise
                            continue
                        if not ok:
                            bad += 1; first_bad = first_bad or {'clause': label, 'args': list(map(repr, tup)), 'results': list(map(repr, res))}
                st = 'holds-on-corpus' if bad == 0 else 'CONTRADICTED'
                results.append({'kind': 'extern', 'name': name, 'status': st, 'calls': n, 'filtered_by_requires': filtered, **({'counterexample': first_bad} if first_bad else {})})
                if bad: failures.append('extern ' + name + ' contradicted: ' + json.dumps(first_bad))
            except Untestable as u:
                results.append({'kind': 'extern', 'name': name, 'status': 'not-testable', 'why': str(u)})
    finally:
        calls = orc.calls
        orc.close()
    rep = {'what': 'bounded conformance test of assumed contracts and axioms against the real libraries (not a proof)', 'corpus': {'strings': len(C.S), 'ints': len(C.I), 'limit_per_clause': LIMIT},
           'oracle_calls': calls, 'results': results, 'contradicted': failures}
    if out_json:
        json.dump(rep, open(out_json, 'w'), indent=1)
    for r in results:
        if r['status'] in ('holds-on-corpus', 'CONTRADICTED'):
            print('%-16s %-7s %-50s %s' % (r['status'], r['kind'], r['name'], r.get('instances', r.get('calls'))))
    nt = [r['name'] for r in results if r['status'] == 'not-testable']
    print('not testable: ' + ', '.join('%s (%s)' % (r['name'], r['why'][:40]) for r in results if r['status'] == 'not-testable'))
    print('not covered: %d externs/axioms (stateful, ghost state, or nothing assumed)' % len([r for r in results if r['status'] == 'not-covered']))
    for f in failures:
        print('CONTRADICTED: ' + f)
    sys.exit(1 if failures else 0)

if __name__ == '__main__':
    main()
